#!/bin/sh
# Offline environment validation; nothing is fetched or compiled (the library is pure Python).
set -e
cd "$(dirname "$0")"
export PYTHONDONTWRITEBYTECODE=1 PYTHONHASHSEED=0
/venv/bin/python -B - <<'PY'
import sys, os
sys.path.insert(0, os.environ.get('VERIF_REPO', '/repo'))
import warnings; warnings.simplefilter('ignore')
import py_ballisticcalc
from py_ballisticcalc.trajectory_calc import TrajectoryCalc
print('library', py_ballisticcalc.__file__, 'backend', TrajectoryCalc.__module__)
PY
mkdir -p evidence replays
echo setup ok

import sys, math, itertools, time
sys.path.insert(0,'/repo')
import warnings; warnings.simplefilter('ignore')
from py_ballisticcalc import *
from py_ballisticcalc.trajectory_data import TrajFlag
A=Angular.Radian(0); Z=Distance.Foot(0)
def row(i,drop):
    return TrajectoryData(float(i), Distance.Yard(10*i), Velocity.FPS(1000), 1.0, Distance.Inch(drop), Distance.Inch(drop), A, Z, A, Distance.Yard(10*i), A, 0.0,0.0, Energy.FootPound(0), Weight.Pound(0), TrajFlag.RANGE)
shot=Shot(Weapon(),Ammo(DragModel(0.3,TableG7),Velocity.FPS(2000)))
def oracle(rows, tgt_idx, half, ds, at):
    idx={id(r):i for i,r in enumerate(rows)}
    b=idx[id(ds.begin)]; e=idx[id(ds.end)]; c=idx[id(ds.at_range)]
    out=[]
    if c!=tgt_idx: out.append('target row')
    if not (b<=c<=e): out.append('order')
    if not (rows[b].distance.raw_value<=at.raw_value<=rows[e].distance.raw_value): out.append('bracket')
    dc=rows[c].target_drop.raw_value
    for i in range(b+1,e):
        if abs(rows[i].target_drop.raw_value-dc)>half+1e-12: out.append(('inside',i)); break
    if b!=0 and abs(rows[b].target_drop.raw_value-dc)<half-1e-12: out.append('begin not a bound')
    if e!=len(rows)-1 and abs(rows[e].target_drop.raw_value-dc)<half-1e-12: out.append('end not a bound')
    return out,(b,e)
t0=time.time(); n=0; kinds={}
for L in range(1,6):
    for drops in itertools.product((-2,-1,0,1,2),repeat=L):
        rows=[row(i,d) for i,d in enumerate(drops)]; hr=HitResult(shot,rows,True)
        for t in range(L):
            prev=None
            for half in (0.25,0.5,1,1.5,2.25,5):
                at=Distance.Yard(10*t); ds=hr.danger_space(at, Distance.Inch(2*half)); n+=1
                o,be=oracle(rows,t,half,ds,at)
                if prev and (be[0]>prev[0] or be[1]<prev[1]): o.append('shrinks')
                prev=be
                for k in o:
                    k=k if isinstance(k,str) else k[0]; kinds[k]=kinds.get(k,0)+1
                    if kinds[k]==1: print('first',k,drops,t,half,be)
print('cases',n,kinds,time.time()-t0)
try: hr.danger_space(Distance.Yard(1000),Distance.Inch(1)); print('no error beyond')
except ArithmeticError as e: print('beyond ->',type(e).__name__)

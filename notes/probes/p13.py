import sys, itertools, struct
sys.path.insert(0,'/repo')
import warnings; warnings.simplefilter('ignore')
from py_ballisticcalc import *
from py_ballisticcalc.exceptions import UnitConversionError
dims={'Distance':([u for u in Unit if 10<=u<20],'distance'),'Angular':([u for u in Unit if 0<=u<10],'angular'),'Temperature':([u for u in Unit if 50<=u<60],'temperature'),'Weight':([u for u in Unit if 70<=u<80],'weight'),'Velocity':([u for u in Unit if 60<=u<70],'velocity'),'Pressure':([u for u in Unit if 40<=u<50],'pressure'),'Energy':([u for u in Unit if 30<=u<40],'energy')}
def bits(x): return struct.pack('>d',float(x))
viol={}
states=0; trans=0
for dn,(us,slot) in dims.items():
    foreign=Unit.FPS if dn!='Velocity' else Unit.Foot
    for u0 in us:
        for m in (1.0,3.0,0.25):
            def fresh(): return u0(m)
            q0=fresh(); raw=bits(q0.raw_value); table={u:bits(q0>>u) for u in us}; h0=hash(q0)
            # BFS over display states
            seen={u0}; frontier=[[ ]]
            ops=[('lshift',u) for u in us]+[('convert',u) for u in us]+[('call',u) for u in us]+[('pref',None)]
            while frontier:
                hist=frontier.pop(0)
                for op in ops:
                    q=fresh()
                    for o in hist+[op]:
                        if o[0]=='lshift': q<<o[1]
                        elif o[0]=='convert': q.convert(o[1])
                        elif o[0]=='call': o[1](q)
                        elif o[0]=='pref': getattr(PreferredUnits,slot)(q)
                    trans+=1
                    # invariants
                    if bits(q.raw_value)!=raw: viol.setdefault('raw',[]).append((dn,u0,hist,op))
                    if any(bits(q>>u)!=table[u] for u in us): viol.setdefault('table',[]).append((dn,u0,hist,op))
                    if hash(q)!=h0: viol.setdefault('hash',[]).append((dn,str(u0),op))
                    str(q); repr(q); float(q)
                    try: q>>foreign; viol.setdefault('foreign read ok',[]).append((dn,u0))
                    except UnitConversionError: pass
                    if q.units not in seen: seen.add(q.units); frontier.append(hist+[op])
            states+=len(seen)
# equality/hash across units
pairs=[(Distance.Yard(1),Distance.Foot(3),Distance.Inch(36)),(Weight.Pound(1),Weight.Grain(7000)),(Temperature.Celsius(100),Temperature.Fahrenheit(212))]
for grp in pairs:
    for a,b in itertools.combinations(grp,2):
        print(type(a).__name__, a.raw_value==b.raw_value, a==b, hash(a)==hash(b), a<=b, a>=b, a<b)
print('states',states,'transitions',trans,{k:(len(v),v[0]) for k,v in viol.items()})

import math, sys, itertools, time, struct
sys.path.insert(0,'/repo')
import warnings; warnings.simplefilter('ignore')
from py_ballisticcalc import *
def bits(x): return struct.pack('>d',float(x))
def rowfp(rows): return tuple((bits(r.time),bits(r.distance.raw_value),bits(r.velocity.raw_value),bits(r.mach),bits(r.height.raw_value),bits(r.windage.raw_value),bits(r.target_drop.raw_value),bits(r.drop_adj.raw_value),bits(r.energy.raw_value),int(r.flag)) for r in rows)
def world(z1=None,z2=None):
    dmA=DragModel(0.223,TableG7,168,0.308,1.2); dmB=DragModel(0.4,TableG1,150,0.3,1.1)
    W1=Weapon(2,12); W2=Weapon(1.5,-9)
    if z1 is not None: W1.zero_elevation=Angular.Radian(z1)
    if z2 is not None: W2.zero_elevation=Angular.Radian(z2)
    atm=Atmo.icao(Distance.Foot(5000))
    S={'A':Shot(W1,Ammo(dmA,Velocity.FPS(2750)),winds=[Wind(Velocity.MPH(10),Angular.Degree(90))]),
       'B':Shot(W2,Ammo(dmB,Velocity.FPS(2000)),look_angle=Angular.Degree(10),atmo=atm,winds=[Wind(Velocity.MPH(5),Angular.Degree(45),Distance.Yard(10)),Wind(Velocity.MPH(15),Angular.Degree(200),Distance.Yard(30))]),
       'C':Shot(W1,Ammo(dmA,Velocity.FPS(100)),relative_angle=Angular.Degree(30)),   # raises RangeError
       'D':Shot(W1,Ammo(dmB,Velocity.FPS(2400)))}
    K={'K0':Calculator(),'K1':Calculator(_config={'max_calc_step_size_feet':0.25,'cGravityConstant':-30.0})}
    return S,K,W1,W2
def run(op,S,K):
    kind,k,s=op
    calc=Calculator() if k=='fresh' else (Calculator(_config={'max_calc_step_size_feet':0.25,'cGravityConstant':-30.0}) if k=='fresh1' else K[k])
    try:
        if kind=='zero': return ('ok',bits(calc.set_weapon_zero(S[s],Distance.Yard(25)).raw_value))
        if kind=='fire': return ('ok',rowfp(calc.fire(S[s],Distance.Yard(40),Distance.Yard(10)).trajectory))
        if kind=='firex': return ('ok',rowfp(calc.fire(S[s],Distance.Yard(40),Distance.Yard(10),True).trajectory))
        if kind=='danger':
            r=calc.fire(S[s],Distance.Yard(40),Distance.Yard(1),True); d=r.danger_space(Distance.Yard(20),Distance.Inch(5)); return ('ok',bits(d.begin.distance.raw_value),bits(d.end.distance.raw_value))
    except RangeError as e: return ('RangeError',e.reason,rowfp(e.incomplete_trajectory))
    except ZeroFindingError as e: return ('ZeroFindingError',bits(e.zero_finding_error))
ops=[(kind,k,s) for kind in ('zero','fire','firex','danger') for k in ('K0','K1','fresh') for s in 'ABCD']
cfg_of={'K0':'fresh','K1':'fresh1','fresh':'fresh'}
t0=time.time(); n=0; bad=0
for hist in itertools.product(ops,repeat=2):
    S,K,W1,W2=world()
    for i,op in enumerate(hist):
        z1,z2=W1.zero_elevation.raw_value, W2.zero_elevation.raw_value
        got=run(op,S,K)
        # reference: fresh world with zero elevations replayed
        S2,K2,_,_=world(z1,z2)
        exp=run((op[0],cfg_of[op[1]],op[2]),S2,K2)
        n+=1
        if got!=exp: bad+=1; print('DIFF',hist,i)
print('transitions',n,'bad',bad,time.time()-t0, 'ops',len(ops))

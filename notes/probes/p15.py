import math, sys, itertools
sys.path.insert(0,'/repo')
import warnings; warnings.simplefilter('ignore')
from py_ballisticcalc import *
c=Calculator()
def trace(shot,R):
    return c.fire(shot, Distance.Foot(R), Distance.Foot(R*10), False, 1e-12).trajectory
shot=Shot(Weapon(2,12,Angular.MOA(30)), Ammo(DragModel(0.1,TableG1), Velocity.FPS(1250)), look_angle=Angular.Degree(10))
tr=trace(shot, 600)
# find crossing steps
la=math.radians(10)
def s(r): return (r.height>>Distance.Foot) - (r.distance>>Distance.Foot)*math.tan(la)
ev=[]
for i in range(1,len(tr)):
    if s(tr[i-1])<0<=s(tr[i]): ev.append(('up',i))
    if s(tr[i-1])>=0>s(tr[i]) and i>1: ev.append(('down',i))
    if tr[i-1].mach>1>=tr[i].mach: ev.append(('mach',i))
print(ev, len(tr))
for kind,i in ev:
    x0,x1=tr[i-1].distance>>Distance.Foot, tr[i].distance>>Distance.Foot
    D=(x0+x1)/2
    # choose record step so that a multiple equals D : step = D (k=1)
    res=c.fire(shot, Distance.Foot(600), Distance.Foot(D), True).trajectory
    for r in res:
        if r.flag & 7: print(kind, 'i',i,'x0',x0,'x1',x1,'row x',r.distance>>Distance.Foot,'flag',r.flag,'mach',r.mach,'tdrop',r.target_drop>>Distance.Foot, 'trace mach', tr[i-1].mach, tr[i].mach)
    # baseline without coincidence
res=c.fire(shot, Distance.Foot(600), Distance.Foot(100), True).trajectory
print([(round(r.distance>>Distance.Foot,3), r.flag, round(r.mach,6), r.target_drop>>Distance.Foot) for r in res if r.flag&7])
print('times sorted', all(res[i].time<res[i+1].time for i in range(len(res)-1)))

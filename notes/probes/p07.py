import math, sys, time, struct
sys.path.insert(0,'/repo')
import warnings; warnings.simplefilter('ignore')
from py_ballisticcalc import *
def bits(x): return struct.pack('>d', float(x)).hex()
def scenario():
    dm=DragModel(0.223, TableG7, Weight.Grain(168), Distance.Inch(0.308), Distance.Inch(1.282))
    dm2=DragModelMultiBC([BCPoint(0.22,V=Velocity.FPS(2500)),BCPoint(0.2,Mach=1.0)], TableG7, Weight.Grain(168), Distance.Inch(0.308))
    ammo=Ammo(dm, Velocity.FPS(2750), Temperature.Celsius(15), use_powder_sensitivity=True); ammo.calc_powder_sens(Velocity.FPS(2700), Temperature.Celsius(0))
    w=Weapon(Distance.Inch(2), Distance.Inch(12), Angular.MOA(3))
    atmo=Atmo(Distance.Foot(1500), Pressure.InHg(28), Temperature.Fahrenheit(40), 40, Temperature.Fahrenheit(70))
    shot=Shot(w, ammo, Angular.Degree(5), Angular.MOA(1), Angular.Degree(2), atmo, [Wind(Velocity.MPH(10),Angular.Degree(70),Distance.Yard(50)),Wind(Velocity.MPH(5),Angular.Degree(200),Distance.Yard(150))])
    c=Calculator()
    z=c.set_weapon_zero(shot, Distance.Yard(100))
    r=c.fire(shot, Distance.Yard(200), Distance.Yard(20), True)
    ds=r.danger_space(Distance.Yard(120), Distance.Inch(10))
    out=[bits(z.raw_value), bits(atmo.density_ratio), bits(atmo._mach), bits(ammo.temp_modifier)]
    for row in r.trajectory:
        out+= [bits(row.time), bits(row.distance.raw_value), bits(row.velocity.raw_value), bits(row.mach), bits(row.height.raw_value), bits(row.target_drop.raw_value), bits(row.drop_adj.raw_value), bits(row.windage.raw_value), bits(row.windage_adj.raw_value), bits(row.look_distance.raw_value), bits(row.angle.raw_value), bits(row.energy.raw_value), bits(row.ogw.raw_value), str(row.flag)]
    out+=[bits(ds.begin.distance.raw_value), bits(ds.end.distance.raw_value)]
    out+=[bits(p.CD) for p in dm2.drag_table]
    s=Sight('SFP', Distance.Meter(100), Angular.Mil(0.1), Angular.MOA(0.25)); adj=s.get_adjustment(Distance.Meter(250), Angular.Mil(1.3), Angular.Mil(-0.4), 7)
    sight=[bits(adj.vertical), bits(adj.horizontal)]
    return out, sight
PreferredUnits.defaults(); base, bs = scenario()
import itertools
cfgs={'imperial':loadImperialUnits,'metric':loadMetricUnits,'mixed':loadMixedUnits}
for n,f in cfgs.items():
    PreferredUnits.defaults(); f(); o,s=scenario(); print(n, o==base, s==bs)
PreferredUnits.defaults()
PreferredUnits.set(angular=Unit.MOA, distance=Unit.Meter, velocity=Unit.KMH, pressure=Unit.PSI, temperature=Unit.Kelvin, diameter=Unit.Millimeter, length=Unit.Centimeter, weight=Unit.Gram, adjustment=Unit.InchesPer100Yd, drop=Unit.Foot, energy=Unit.Joule, ogw=Unit.Kilogram, sight_height=Unit.Line, target_height=Unit.Yard, twist=Unit.Kilometer)
o,s=scenario(); print('scrambled', o==base, s==bs, [ (i,a,b) for i,(a,b) in enumerate(zip(o,base)) if a!=b][:3], s, bs)

import sys, math, itertools, time, struct
sys.path.insert(0,'/repo')
import warnings; warnings.simplefilter('ignore')
from py_ballisticcalc import *
def bits(x): return struct.pack('>d',float(x)).hex()
def q(o):
    # fingerprint of an object: raw values of quantity fields
    if isinstance(o,AbstractDimension): return bits(o.raw_value)
    if isinstance(o,float): return bits(o)
    if isinstance(o,(int,str,bool,type(None))): return o
    if isinstance(o,(list,tuple)): return tuple(q(x) for x in o)
    if hasattr(o,'__dict__'): return tuple((k,q(v)) for k,v in sorted(vars(o).items()) if not k.startswith('_initial'))
    return str(type(o))
dm=lambda: DragModel(0.223,TableG7,Weight.Grain(168),Distance.Inch(0.308),Distance.Inch(1.2))
def base_shot(**kw):
    return Shot(Weapon(Distance.Inch(2),Distance.Inch(12),Angular.MOA(4)), Ammo(dm(),Velocity.FPS(2750)), **kw)
calc=Calculator()
def fire_fp(shot):
    r=calc.fire(shot, Distance.Yard(50), Distance.Yard(10))
    return tuple((bits(x.time),bits(x.height.raw_value),bits(x.windage.raw_value),bits(x.velocity.raw_value)) for x in r.trajectory)
P=PreferredUnits
params={
 'Atmo.altitude': ('distance', lambda v: q(Atmo(altitude=v, pressure=Pressure.InHg(29), temperature=Temperature.Fahrenheit(50)))),
 'Atmo.pressure': ('pressure', lambda v: q(Atmo(altitude=Distance.Foot(0), pressure=v, temperature=Temperature.Fahrenheit(50)))),
 'Atmo.temperature': ('temperature', lambda v: q(Atmo(altitude=Distance.Foot(0), pressure=Pressure.InHg(29), temperature=v))),
 'Atmo.powder_t': ('temperature', lambda v: q(Atmo(altitude=Distance.Foot(0), pressure=Pressure.InHg(29), temperature=Temperature.Fahrenheit(50), powder_t=v))),
 'Wind.velocity': ('velocity', lambda v: q(Wind(v, Angular.Degree(90), Distance.Yard(100)).vector)),
 'Wind.direction_from': ('angular', lambda v: q(Wind(Velocity.MPH(5), v, Distance.Yard(100)).vector)),
 'Wind.until_distance': ('distance', lambda v: fire_fp(base_shot(winds=[Wind(Velocity.MPH(15), Angular.Degree(90), v)]))),
 'Shot.look_angle': ('angular', lambda v: fire_fp(base_shot(look_angle=v))),
 'Shot.relative_angle': ('angular', lambda v: fire_fp(base_shot(relative_angle=v))),
 'Shot.cant_angle': ('angular', lambda v: fire_fp(base_shot(cant_angle=v))),
 'Weapon.sight_height': ('sight_height', lambda v: q(Weapon(v, Distance.Inch(12), Angular.MOA(4)))),
 'Weapon.twist': ('twist', lambda v: q(Weapon(Distance.Inch(2), v, Angular.MOA(4)))),
 'Weapon.zero_elevation': ('angular', lambda v: q(Weapon(Distance.Inch(2), Distance.Inch(12), v))),
 'Ammo.mv': ('velocity', lambda v: q(Ammo(dm(), v).mv)),
 'Ammo.powder_temp': ('temperature', lambda v: q(Ammo(dm(), Velocity.FPS(2750), v).powder_temp)),
 'Ammo.get_velocity_for_temp': ('temperature', lambda v: q(Ammo(dm(), Velocity.FPS(2750), Temperature.Celsius(15), 0.01, True).get_velocity_for_temp(v))),
 'DragModel.weight': ('weight', lambda v: q(DragModel(0.2,TableG7,v,Distance.Inch(0.3),Distance.Inch(1)).weight)),
 'DragModel.diameter': ('diameter', lambda v: q(DragModel(0.2,TableG7,Weight.Grain(100),v,Distance.Inch(1)).diameter)),
 'DragModel.length': ('length', lambda v: q(DragModel(0.2,TableG7,Weight.Grain(100),Distance.Inch(0.3),v).length)),
 'BCPoint.V': ('velocity', lambda v: q(BCPoint(0.2,V=v).Mach)),
 'fire.range': ('distance', lambda v: q([x.distance for x in calc.fire(base_shot(), v, Distance.Foot(10)).trajectory])),
 'fire.step': ('distance', lambda v: q([x.distance for x in calc.fire(base_shot(), Distance.Foot(60), v).trajectory])),
 'zero.distance': ('distance', lambda v: q(calc.barrel_elevation_for_target(base_shot(), v))),
 'danger.at_range': ('distance', lambda v: q(calc.fire(base_shot(),Distance.Yard(100),Distance.Yard(5),True).danger_space(v, Distance.Inch(10)).end.distance)),
 'danger.target_height': ('target_height', lambda v: q(calc.fire(base_shot(),Distance.Yard(100),Distance.Yard(5),True).danger_space(Distance.Yard(50), v).end.distance)),
 'danger.look_angle': ('angular', lambda v: q(calc.fire(base_shot(),Distance.Yard(100),Distance.Yard(5),True).danger_space(Distance.Yard(50), Distance.Inch(10), v).look_angle)),
 'Sight.scale_factor': ('distance', lambda v: q(Sight('SFP', v, Angular.Mil(0.1), Angular.Mil(0.1)).get_adjustment(Distance.Yard(100),Angular.Mil(1),Angular.Mil(1),4))),
 'Sight.click': ('adjustment', lambda v: q(Sight('FFP', Distance.Yard(100), v, v).get_adjustment(Distance.Yard(100),Angular.Mil(1),Angular.Mil(1),4))),
 'set_global_step': ('distance', lambda v: (set_global_max_calc_step_size(v), q(Calculator()._calc._config.max_calc_step_size_feet), reset_globals())[1]),
}
cfgs={'default':{}, 'scr':dict(angular=Unit.MOA, distance=Unit.Meter, velocity=Unit.KMH, pressure=Unit.PSI, temperature=Unit.Celsius, diameter=Unit.Millimeter, length=Unit.Centimeter, weight=Unit.Gram, adjustment=Unit.MRad, drop=Unit.Foot, energy=Unit.Joule, ogw=Unit.Kilogram, sight_height=Unit.Line, target_height=Unit.Yard, twist=Unit.Centimeter)}
res={}
for cn,cfg in cfgs.items():
    for name,(slot,fn) in params.items():
        for v in (0,1,-1,2.5,100):
            P.defaults(); P.set(**cfg)
            unit=getattr(P,slot)
            try: e=fn(unit(v)); eerr=None
            except Exception as ex: e=None; eerr=type(ex).__name__
            P.defaults(); P.set(**cfg)
            try: b=fn(v); berr=None
            except Exception as ex: b=None; berr=type(ex).__name__
            if eerr: continue  # vacuous
            if berr or b!=e: res.setdefault(name,[]).append((cn,v,berr))
P.defaults()
for k,v in res.items(): print(k,v)

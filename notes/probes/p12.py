import math, sys, time, itertools
sys.path.insert(0,'/repo')
import warnings; warnings.simplefilter('ignore')
from py_ballisticcalc import *
c=Calculator()
dm=DragModel(0.223,TableG7)
def fire(winds):
    shot=Shot(Weapon(2,0,Angular.MOA(5)), Ammo(dm,Velocity.FPS(2750)), winds=winds)
    return c.fire(shot, Distance.Yard(100), Distance.Yard(5)).trajectory
def key(r, mirror=False):
    return (r.time, r.distance.raw_value, r.velocity.raw_value, r.mach, r.height.raw_value, (-1 if mirror else 1)*r.windage.raw_value, (-1 if mirror else 1)*r.windage_adj.raw_value, r.angle.raw_value, r.energy.raw_value,r.drag,r.density_factor)
segs=[('Z',20),('Z',60),('Z',None)]+[(d,u) for d in (90,0,225) for u in (20,60,None)]
def W(s):
    d,u=s
    if d=='Z': return Wind(Velocity.MPH(0), Angular.Degree(77), Distance.Yard(u) if u else None)
    return Wind(Velocity.MPH(20), Angular.Degree(d), Distance.Yard(u) if u else None)
def Wm(s):
    d,u=s
    if d=='Z': return Wind(Velocity.MPH(0), Angular.Degree(-77), Distance.Yard(u) if u else None)
    return Wind(Velocity.MPH(20), Angular.Degree(-d), Distance.Yard(u) if u else None)
nowind=[key(r) for r in fire([])]
res={}
t0=time.time()
lists=[()]+[ (a,) for a in segs]+[(a,b) for a in segs for b in segs]
for l in lists:
    res[l]=[key(r) for r in fire([W(s) for s in l])]
print('fired',len(lists),time.time()-t0)
bad=0
for l in lists:
    # order invariance
    for p in itertools.permutations(l):
        if p==l: continue
        us=[s[1] or 1e9 for s in l]
        if len(set(us))<len(us): continue
        if res[p]!=res[l]: bad+=1; print('ORDER',l,p)
    # zero winds == none
    if all(s[0]=='Z' for s in l) and res[l]!=nowind: bad+=1; print('ZERO',l)
    # mirror
    m=[key(r,True) for r in fire([Wm(s) for s in l])]
    if m!=res[l]:
        bad+=1; print('MIRROR',l, [ (a,b) for a,b in zip(m,res[l]) if a!=b][:1])
# causality: lists sharing sorted prefix
def srt(l): return sorted(l,key=lambda s:(s[1] or 1e9))
for l1,l2 in itertools.combinations(lists,2):
    a,b=srt(l1),srt(l2)
    k=0
    while k<len(a) and k<len(b) and a[k]==b[k]: k+=1
    D = (a[k-1][1] or 1e9) if k>0 else 0
    # rows with distance <= D*36 inches must be equal
    for r1,r2 in zip(res[l1],res[l2]):
        if r1[1] <= D*36+1e-9 and r1!=r2: bad+=1; print('CAUSAL',l1,l2,D,r1[1]/36); break
print('bad',bad)
left=fire([W((90,None))]); print('from left windage', left[-1].windage>>Distance.Inch)
tail=fire([W((0,None))]); head=fire([Wind(Velocity.MPH(20),Angular.Degree(180))]); nw=fire([])
print('tail/head/no height', tail[-1].height>>Distance.Inch, head[-1].height>>Distance.Inch, nw[-1].height>>Distance.Inch, 'time', tail[-1].time, head[-1].time, nw[-1].time)

import math, sys, time, itertools
sys.path.insert(0,'/repo')
import warnings; warnings.simplefilter('ignore')
from py_ballisticcalc import *
import py_ballisticcalc.drag_tables as dt
G=-32.17405
def ref_solve(shot, calc, dists_ft, dt=4e-5):
    tc=calc._calc; tc._init_trajectory(shot)
    e=shot.barrel_elevation>>Angular.Radian; a=shot.barrel_azimuth>>Angular.Radian; cant=shot.cant_angle>>Angular.Radian
    sh=shot.weapon.sight_height>>Distance.Foot; alt0=shot.atmo.altitude>>Distance.Foot
    mv=shot.ammo.get_velocity_for_temp(shot.atmo.powder_temp)>>Velocity.FPS
    segs=[(w.until_distance>>Distance.Foot, tuple(w.vector)) for w in shot.winds]
    s=[0.0,-math.cos(cant)*sh,-math.sin(cant)*sh, mv*math.cos(e)*math.cos(a), mv*math.sin(e), mv*math.cos(e)*math.sin(a)]
    def mkf(w):
        def f(s):
            x,y,z,vx,vy,vz=s; ax,ay,az=vx-w[0],vy-w[1],vz-w[2]
            va=math.sqrt(ax*ax+ay*ay+az*az)
            dens,mach=shot.atmo.get_density_factor_and_mach_for_altitude(alt0+y)
            k=dens*va*tc.drag_by_mach(va/mach)
            return [vx,vy,vz,-k*ax,-k*ay+G,-k*az]
        return f
    def rk4(f,s,h):
        k1=f(s); k2=f([s[i]+.5*h*k1[i] for i in range(6)]); k3=f([s[i]+.5*h*k2[i] for i in range(6)]); k4=f([s[i]+h*k3[i] for i in range(6)])
        return [s[i]+h/6*(k1[i]+2*k2[i]+2*k3[i]+k4[i]) for i in range(6)]
    def advance_to(f,s,t,X):
        # integrate with fixed dt until x reaches X exactly (bisection on final step)
        while True:
            n=rk4(f,s,dt)
            if n[0]>=X:
                lo,hi=0.0,dt
                for _ in range(70):
                    mid=(lo+hi)/2
                    if rk4(f,s,mid)[0]>=X: hi=mid
                    else: lo=mid
                return rk4(f,s,hi), t+hi
            if n[0]<=s[0]: raise RuntimeError('not moving forward')
            s=n; t+=dt
    out=[]; t=0.0; si=0
    events=sorted(set(dists_ft)|{u for u,_ in segs if u<max(dists_ft)})
    for X in events:
        while si<len(segs) and segs[si][0]<=s[0]: si+=1
        w=segs[si][1] if si<len(segs) else (0.0,0.0,0.0)
        if X>s[0]:
            s,t=advance_to(mkf(w),s,t,X)
        if X in dists_ft: out.append((t,list(s)))
    return out
def build(cell):
    tabs={'G7':dt.TableG7,'G1':dt.TableG1,'RA4':dt.TableRA4,'custom3':[{'Mach':0.0,'CD':0.3},{'Mach':1.0,'CD':0.5},{'Mach':3.0,'CD':0.25}]}
    if cell['dm']=='multi': dm=DragModelMultiBC([BCPoint(cell['bc'],Mach=2.0),BCPoint(cell['bc']*0.9,Mach=1.0)], dt.TableG7)
    else: dm=DragModel(cell['bc'], tabs[cell['dm']])
    atm={'icao':lambda:Atmo.icao(),'icao5k':lambda:Atmo.icao(Distance.Foot(5000)),'hot':lambda:Atmo(Distance.Foot(1500),Pressure.InHg(28),Temperature.Fahrenheit(95),60),'vac':lambda:Vacuum()}[cell['atmo']]()
    W={'none':[], 'cross':[Wind(Velocity.MPH(10),Angular.Degree(90))],'head':[Wind(Velocity.MPH(20),Angular.Degree(180))],'tail':[Wind(Velocity.MPH(20),Angular.Degree(0))],
       'seg3':[Wind(Velocity.MPH(30),Angular.Degree(200),Distance.Yard(150)),Wind(Velocity.MPH(20),Angular.Degree(90),Distance.Yard(60)),Wind(Velocity.MPH(10),Angular.Degree(0),Distance.Yard(400))],
       'q60':[Wind(Velocity.MPH(60),Angular.Degree(135))]}[cell['wind']]
    return Shot(Weapon(Distance.Inch(cell['sh']),0,Angular.Degree(cell['zero'])), Ammo(dm,Velocity.FPS(cell['mv'])), Angular.Degree(cell['look']), Angular.Degree(cell['rel']), Angular.Degree(cell['cant']), atm, W)
base=dict(dm='G7',bc=.223,mv=2750,sh=2,look=0,zero=5/60,rel=0,cant=0,atmo='icao',wind='none')
dims=dict(dm=['G1','RA4','custom3','multi'],bc=[.05,.9],mv=[1150,4000,600],sh=[0,-1],look=[20,-30],zero=[0,3],rel=[1],cant=[30,90],atmo=['icao5k','hot','vac'],wind=['cross','head','tail','seg3','q60'])
cells=[dict(base)]+[dict(base,**{k:v}) for k,vs in dims.items() for v in vs]
cells+=[dict(base,dm='G1',bc=.3,mv=1150,look=20,cant=30,atmo='hot',wind='seg3',zero=3,sh=0,rel=1)]
R=900.0; dists=[R*k/4 for k in range(1,5)]
worst=0; bad=0; vac=0
t0=time.time()
for cell in cells:
    shot=build(cell)
    try:
        rows={h:Calculator(_config={'max_calc_step_size_feet':h}).fire(shot, Distance.Foot(R), Distance.Foot(R/4)).trajectory for h in (0.5,0.25,0.125,0.0625)}
    except RangeError as e:
        vac+=1; print('vacuous',{k:v for k,v in cell.items() if base[k]!=v},e.reason); continue
    ref=ref_solve(shot,Calculator(),dists); ref2=ref_solve(shot,Calculator(),dists,dt=8e-5)
    def col(r): return (r.height>>Distance.Foot, r.windage>>Distance.Foot, r.velocity>>Velocity.FPS, r.time)
    cw=0
    for c in range(4):
        D={h:[abs(col(rows[h][k+1])[c]-col(rows[h/2][k+1])[c]) for k in range(4)] for h in (0.5,0.25,0.125)}
        for h in (0.5,0.25,0.125):
            mx=max(D[h])
            for k in range(4):
                t,s=ref[k]; t2,s2=ref2[k]
                rc=(s[1],s[2],math.sqrt(s[3]**2+s[4]**2+s[5]**2),t)[c]; rc2=(s2[1],s2[2],math.sqrt(s2[3]**2+s2[4]**2+s2[5]**2),t2)[c]
                e=abs(col(rows[h][k+1])[c]-rc); floor=(1e-7,1e-7,1e-6,1e-10)[c]+abs(rc-rc2)*16/15+0.02*mx
                ratio=(e-floor)/D[h][k] if D[h][k]>0 else (0 if e<=floor else 99)
                cw=max(cw,ratio)
                if e>4*D[h][k]+floor: bad+=1; print('VIOL',{kk:v for kk,v in cell.items() if base[kk]!=v},'col',c,'h',h,'k',k,e,D[h][k],floor)
    worst=max(worst,cw)
    print({k:v for k,v in cell.items() if base[k]!=v}, 'max (e-floor)/Δ =',round(cw,3))
print('cells',len(cells),'vacuous',vac,'bad',bad,'worst ratio',worst,time.time()-t0)

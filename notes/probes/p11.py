import math, sys, itertools
sys.path.insert(0,'/repo')
import warnings; warnings.simplefilter('ignore')
from py_ballisticcalc import *
dm = DragModel(0.223, TableG7, 168, 0.308, 1.282)
shots = {
 'base': Shot(Weapon(2,12,Angular.MOA(6)), Ammo(dm, Velocity.FPS(2750)), winds=[Wind(Velocity.MPH(10),Angular.Degree(90),Distance.Yard(60)),Wind(Velocity.MPH(10),Angular.Degree(180),Distance.Yard(200))]),
 'trans': Shot(Weapon(2,12,Angular.MOA(30)), Ammo(DragModel(0.1,TableG1), Velocity.FPS(1250)), look_angle=Angular.Degree(10)),
}
c=Calculator()
def key(r): return (r.time, r.distance.raw_value, r.velocity.raw_value, r.mach, r.height.raw_value, r.target_drop.raw_value, r.drop_adj.raw_value, r.windage.raw_value, r.windage_adj.raw_value, r.look_distance.raw_value, r.angle.raw_value, r.density_factor, r.drag, r.energy.raw_value, r.ogw.raw_value)
for name, shot in shots.items():
    reqs=[]
    for R in (150., 300., 412.5):
        for st in (R, 37.5, 75., 150., 10.):
            for ts in (0., 0.01, 0.1):
                for ex in (False, True):
                    reqs.append((R,st,ts,ex))
    res={}
    for q in reqs:
        R,st,ts,ex=q
        res[q]=c.fire(shot, Distance.Foot(R), Distance.Foot(st), ex, ts).trajectory
    worst=0; nb=0
    for q1,q2 in itertools.combinations(reqs,2):
        d1={round(r.distance>>Distance.Foot,6):r for r in res[q1] if r.flag & 8}
        d2={round(r.distance>>Distance.Foot,6):r for r in res[q2] if r.flag & 8}
        for D in set(d1)&set(d2):
            # only multiples of step
            if abs(D/q1[1]-round(D/q1[1]))>1e-6 or abs(D/q2[1]-round(D/q2[1]))>1e-6: continue
            k1,k2=key(d1[D]),key(d2[D]); nb+=1
            for a,b in zip(k1,k2):
                rel=abs(a-b)/max(1e-300,abs(a),abs(b)) if a!=b else 0
                if rel>worst: worst=rel; wq=(q1,q2,D,a,b)
    print(name, 'pairs rows',nb,'worst rel',worst, wq if worst else '')
    # extra superset
    bad=0
    for (R,st,ts,ex) in reqs:
        if ex: continue
        p=res[(R,st,ts,False)]; e=res[(R,st,ts,True)]
        pk=[key(r) for r in p]; ek=[key(r) for r in e]
        if not all(k in ek for k in pk): bad+=1; print('plain not subset', R,st,ts, len(p), len(e))
        extra_only=[r for r in e if key(r) not in pk]
        if any(not (r.flag & 7) for r in extra_only): bad+=1; print('extra-only unflagged', R,st,ts,[ (r.distance>>Distance.Foot, r.flag) for r in extra_only if not (r.flag&7)][:5])
    print(' superset bad', bad, 'flags seen', sorted({r.flag for q in reqs for r in res[q]}))

import math, sys, time
sys.path.insert(0,'/repo')
import warnings; warnings.simplefilter('ignore')
from py_ballisticcalc import *
dm = DragModel(0.223, TableG7, 168, 0.308, 1.282)
def trace(c,shot,R):
    try: return c.fire(shot, Distance.Foot(R), Distance.Foot(R*10), False, 1e-12).trajectory
    except RangeError as e: return e.incomplete_trajectory
def adv(tr, wind=(0,0,0)):
    out=[]
    for a,b in zip(tr,tr[1:]):
        dt=b.time-a.time
        dx=(b.distance>>Distance.Foot)-(a.distance>>Distance.Foot); dy=(b.height>>Distance.Foot)-(a.height>>Distance.Foot); dz=(b.windage>>Distance.Foot)-(a.windage>>Distance.Foot)
        out.append(math.sqrt((dx-wind[0]*dt)**2+dy*dy+(dz-wind[2]*dt)**2))
    return out
for ms in (0.5, 0.1, 1.0):
    c=Calculator(_config={'max_calc_step_size_feet':ms})
    w=Wind(Velocity.MPH(30),Angular.Degree(0)); 
    shot=Shot(Weapon(2,0,Angular.MOA(5)), Ammo(dm,Velocity.FPS(2750)), winds=[w])
    a=adv(trace(c,shot,50), w.vector); print(ms,'max adv',max(a),'min',min(a), len(a))
# slow vertical with min velocity 0
c=Calculator(_config={'cMinimumVelocity':0})
shot=Shot(Weapon(0,0), Ammo(dm,Velocity.FPS(300)), relative_angle=Angular.Degree(90))
tr=trace(c,shot,10); a=adv(tr); big=[(i,x,tr[i].velocity>>Velocity.FPS) for i,x in enumerate(a) if x>0.5]
print('vertical: steps',len(a),'n>0.5',len(big), big[:5])
shot=Shot(Weapon(0,0), Ammo(dm,Velocity.FPS(0)))
tr=trace(c,shot,10); a=adv(tr); big=[(i,x,tr[i].velocity>>Velocity.FPS) for i,x in enumerate(a) if x>0.5]; print('zero-v: steps',len(a),'n>0.5',len(big), big[:8])
# C03 time gaps
c=Calculator()
shot=Shot(Weapon(2,0,Angular.MOA(5)), Ammo(dm,Velocity.FPS(2750)))
dts=[b.time-a.time for a,b in zip(trace(c,shot,300),trace(c,shot,300)[1:])]; dtmax=max(dts)
for ts in (1e-4,1e-3,0.01):
    for ex in (False,True):
        rows=c.fire(shot, Distance.Foot(300), Distance.Foot(100), ex, ts).trajectory
        g=max(b.time-a.time for a,b in zip(rows,rows[1:])); print('ts',ts,ex,'rows',len(rows),'maxgap-ts in dt units',(g-ts)/dtmax)

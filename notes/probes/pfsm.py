import sys, math, itertools, time
sys.path.insert(0,'/repo')
import warnings; warnings.simplefilter('ignore')
from py_ballisticcalc import *
from py_ballisticcalc.trajectory_calc import _TrajectoryDataFilter
from py_ballisticcalc.trajectory_data import TrajFlag
u=0.25
def drive(dxs, range_step, flags=TrajFlag.RANGE, time_step=0.0, side=None, look=0.0):
    x=0.0; t=0.0; pts=[]
    y0=-0.1
    pos=Vector(0.0,y0,0.0); vel=Vector(1000.0,1.0,0.0)
    f=_TrajectoryDataFilter(flags, range_step, pos, vel, time_step); f.setup_seen_zero(y0, 0.001, look)
    rows=[]; pts=[(0.0,y0,0.0)]
    f.clear_current_flag(); d=f.should_record(pos,vel,1100.0,0.0)
    if d is not None: rows.append((d.position.x,d.time,f.current_flag))
    for i,dx in enumerate(dxs):
        x+=dx*u; t+=dx*u/1000.0
        y=y0 + (0.2 if side and side[i] else 0.0)
        pos=Vector(x,y,0.0); f.clear_current_flag(); d=f.should_record(pos,vel,1100.0,t); pts.append((x,y,t))
        if d is not None: rows.append((d.position.x,d.time,f.current_flag))
    return pts, rows
def reference(pts, range_step):
    exp=[]; k=0
    xs=[p[0] for p in pts]
    while k*range_step <= xs[-1]+1e-12:
        m=k*range_step
        # find step containing m
        if m==0: exp.append((0.0,0.0))
        else:
            i=next(i for i in range(1,len(xs)) if xs[i-1] < m <= xs[i] or abs(xs[i]-m)<1e-12)
            r=(m-xs[i-1])/(xs[i]-xs[i-1]); exp.append((m, pts[i-1][2]+(pts[i][2]-pts[i-1][2])*r))
        k+=1
    return exp
t0=time.time(); n=0; bad=0
for nsteps in range(1,8):
    for dxs in itertools.product((0.8,1.0,1.2),repeat=nsteps):
        for rs in (2*u,2.5*u,4*u):
            pts,rows=drive(dxs,rs); exp=reference(pts,rs); n+=1
            got=[(x,t) for x,t,fl in rows if fl&8]
            ok=len(got)==len(exp) and all(abs(a[0]-b[0])<1e-9 and abs(a[1]-b[1])<1e-12 for a,b in zip(got,exp))
            if not ok:
                bad+=1
                if bad<4: print('DIFF',dxs,rs,got,exp)
print('traces',n,'bad',bad,time.time()-t0)

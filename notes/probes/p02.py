import math, sys, time
sys.path.insert(0,'/repo')
import warnings; warnings.simplefilter('ignore')
from py_ballisticcalc import *
from py_ballisticcalc.trajectory_calc import _trajectory_calc as tcm
from py_ballisticcalc.trajectory_data import TrajFlag
# candidate fix (monkeypatched for the probe only)
def zero_angle(self, shot_info, distance):
    self._init_trajectory(shot_info)
    acc = self._config.cZeroFindingAccuracy; maxit = self._config.cMaxIterations
    distance_feet = distance >> Distance.Foot
    zero_distance = math.cos(self.look_angle) * distance_feet
    height_at_zero = math.sin(self.look_angle) * distance_feet
    it = 0; err = acc * 2
    while err > acc and it < maxit:
        # row interpolated exactly at zero_distance
        t = self._integrate(shot_info, zero_distance, zero_distance, TrajFlag.RANGE)[-1]
        height = t.height >> Distance.Foot
        err = math.fabs(height - height_at_zero)
        if err > acc:
            self.barrel_elevation -= (t.target_drop >> Distance.Foot) / (t.look_distance >> Distance.Foot)
        else: break
        it += 1
    if err > acc:
        raise ZeroFindingError(err, it, Angular.Radian(self.barrel_elevation))
    return Angular.Radian(self.barrel_elevation)
import os
if os.environ.get('FIX'): tcm.TrajectoryCalc.zero_angle = zero_angle
c=Calculator()
dm = DragModel(0.223, TableG7, 168, 0.308, 1.282)
bad=0; n=0; worst=0
for la in (-55,-30,-10,-1,0,1,10,30,55):
  for d in (10,25,100,300,600,1000,1800):
    for z0 in (0, 10/60, -0.5, 3, 20):
      for wind in ([], [Wind(Velocity.MPH(15),Angular.Degree(90))], [Wind(Velocity.MPH(20),Angular.Degree(0))]):
        w=Weapon(2,0,Angular.Degree(z0)); shot=Shot(w, Ammo(dm,Velocity.FPS(2750)), look_angle=Angular.Degree(la), winds=wind)
        n+=1
        try:
            z=c.set_weapon_zero(shot, Distance.Yard(d))
        except Exception as e:
            bad+=1; print('FAIL',la,d,z0,len(wind),type(e).__name__, str(e)[:60]); continue
        x=d*3*math.cos(math.radians(la))
        r=c.fire(shot, Distance.Foot(x), Distance.Foot(x)).trajectory
        p=[q for q in r if q.flag & 8][-1]
        td=abs(p.target_drop>>Distance.Foot); slope=abs(math.tan((p.angle>>Angular.Radian)-math.radians(la)))
        bound=5e-6+0.5*slope
        worst=max(worst, td/bound)
        if td>bound: bad+=1; print('MISS',la,d,z0,len(wind),td,bound)
print('cases',n,'bad',bad,'worst td/bound',worst)

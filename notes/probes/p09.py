import sys, math, itertools, time
sys.path.insert(0,'/repo')
import warnings; warnings.simplefilter('ignore')
from py_ballisticcalc import *
import py_ballisticcalc.drag_tables as dt
K=2.08551e-4
c=Calculator()
def lagr(pts,x):
    (x1,y1),(x2,y2),(x3,y3)=pts
    return y1*(x-x2)*(x-x3)/((x1-x2)*(x1-x3))+y2*(x-x1)*(x-x3)/((x2-x1)*(x2-x3))+y3*(x-x1)*(x-x2)/((x3-x1)*(x3-x2))
def line(p,q,x): return p[1]+(q[1]-p[1])*(x-p[0])/(q[0]-p[0])
def check(tab, bc=1.0):
    shot=Shot(Weapon(), Ammo(DragModel(bc, tab), Velocity.FPS(2000)))
    c._calc._init_trajectory(shot)
    pts=[(p['Mach'],p['CD']) for p in tab]; n=len(pts); bad=[]
    qs=[]
    for i,(x,y) in enumerate(pts):
        qs+= [x, math.nextafter(x,9), math.nextafter(x,-9)]
        if i<n-1:
            x2=pts[i+1][0]; mid=(x+x2)/2; qs+=[mid, math.nextafter(mid,9), math.nextafter(mid,-9)]+[x+(x2-x)*j/16 for j in range(1,16)]
    qs+=[pts[-1][0]*1.5, pts[-1][0]*3, pts[-1][0]*10]
    for q in qs:
        if q<0: continue
        cd=c._calc.drag_by_mach(q)*bc/K
        # neighbours
        k=max(j for j in range(n) if pts[j][0]<=q) if q>=pts[0][0] else -1
        cands=[]
        if q>=pts[-1][0]: cands.append(lagr(pts[n-3:n],q)); 
        if q==pts[-1][0]: pass
        if 0<=k<n-1:
            if k-1>=0: cands.append(lagr(pts[k-1:k+2],q))
            if k+2<n: cands.append(lagr(pts[k:k+3],q))
            if k==0: cands.append(line(pts[0],pts[1],q))
        if k==-1: cands+= [line(pts[0],pts[1],q), lagr(pts[0:3],q)]
        exact=[y for (x,y) in pts if x==q]
        if exact:
            ok=abs(cd-exact[0])<1e-11
        else:
            ok=any(abs(cd-v)<1e-9*max(1,abs(v)) for v in cands)
        if not ok: bad.append((q,cd,cands,exact))
    return len(qs),bad
tot=0;nb=0
for name in ['TableG1','TableG7','TableG2','TableG5','TableG6','TableG8','TableGI','TableGS','TableRA4']:
    n,b=check(getattr(dt,name)); tot+=n; nb+=len(b)
    if b: print(name,b[:2])
print('shipped queries',tot,'bad',nb)
t0=time.time(); ntab=0; nq=0; nb=0
machs=(0,0.5,1,1.2,2,5)
for n in (3,4,5):
    for ms in itertools.combinations(machs,n):
        for cds in itertools.product((0.1,0.3,0.5),repeat=n):
            tab=[{'Mach':m,'CD':cd} for m,cd in zip(ms,cds)]
            q,b=check(tab); ntab+=1; nq+=q; nb+=len(b)
            if b and nb<4: print(tab,b[:1])
print('custom tables',ntab,'queries',nq,'bad',nb,time.time()-t0)

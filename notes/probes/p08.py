import math, sys
sys.path.insert(0,'/repo')
import warnings; warnings.simplefilter('ignore')
from py_ballisticcalc import *
from py_ballisticcalc.drag_tables import *
# ISA reference
T0=288.15; L=0.0065; P0=101325.0; Rs=287.05287; gam=1.4; g0=9.80665
def isa(h_m):
    T=T0-L*h_m; P=P0*(T/T0)**(g0/(Rs*L)); rho=P/(Rs*T); a=math.sqrt(gam*Rs*T); return T,P,rho,a
worst=[0,0,0,0]
for hft in range(-1400,36001,100):
    at=Atmo.icao(Distance.Foot(hft))
    T,P,rho,a=isa(hft*0.3048)
    e=[abs((at.temperature>>Temperature.Kelvin)-T)/T, abs((at.pressure>>Pressure.hPa)*100-P)/P, abs(at.density_ratio-rho/1.225)/(rho/1.225), abs((at.mach>>Velocity.MPS)-a)/a]
    for i in range(4):
        if e[i]>worst[i]: worst[i]=e[i]
print('ISA worst rel T,P,rho,a', worst)
# station consistency
w=0; w2=0
for a0 in (-1000,0,5000,15000,30000):
    st=Atmo.icao(Distance.Foot(a0))
    for q in range(-1400,36001,250):
        d,m=st.get_density_factor_and_mach_for_altitude(q)
        o=Atmo.icao(Distance.Foot(q))
        w=max(w,abs(d-o.density_ratio)/o.density_ratio); w2=max(w2,abs(m-o._mach)/o._mach)
print('station->query vs std at query: worst rel dens, mach', w, w2)
st=Atmo.icao(Distance.Foot(5000))
for off in (29.999,30.0,30.001,-29.999,-30.0,0):
    d,m=st.get_density_factor_and_mach_for_altitude(5000+off); print(off, d/st.density_ratio-1, m/st._mach-1)
v=Vacuum(); print('vac', v.density_ratio, v.get_density_factor_and_mach_for_altitude(5000), Vacuum(Distance.Foot(3000)).get_density_factor_and_mach_for_altitude(0))
# C09 5% band
import py_ballisticcalc.drag_tables as dt
c=Calculator()
for name in get_drag_tables_names():
    tab=getattr(dt,name)
    shot=Shot(Weapon(), Ammo(DragModel(1.0, tab), Velocity.FPS(2000)))
    c._calc._init_trajectory(shot)
    k=2.08551e-4
    worst=0; neg=False; asc=all(tab[i]['Mach']<tab[i+1]['Mach'] for i in range(len(tab)-1))
    nodeerr=0
    for i in range(len(tab)-1):
        x0,x1,y0,y1=tab[i]['Mach'],tab[i+1]['Mach'],tab[i]['CD'],tab[i+1]['CD']
        nodeerr=max(nodeerr, abs(c._calc.drag_by_mach(x0)/k-y0))
        for j in range(1,64):
            x=x0+(x1-x0)*j/64; lin=y0+(y1-y0)*j/64; cd=c._calc.drag_by_mach(x)/k
            worst=max(worst,abs(cd-lin)/lin); neg=neg or cd<=0
    print(name, len(tab), 'first mach', tab[0]['Mach'], 'asc',asc,'worst dev from linear', round(worst,4), 'neg',neg, 'nodeerr', nodeerr)

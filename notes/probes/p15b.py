import math, sys, itertools, time
sys.path.insert(0,'/repo')
import warnings; warnings.simplefilter('ignore')
from py_ballisticcalc import *
c=Calculator()
dm=DragModel(0.223,TableG7,168,0.308,1.2)
def trace(shot,R):
    try: return c.fire(shot, Distance.Foot(R), Distance.Foot(R*10), False, 1e-12).trajectory
    except RangeError as e: return e.incomplete_trajectory
def check(shot, la, R, step, tr):
    lar=math.radians(la)
    X=[r.distance>>Distance.Foot for r in tr]; Y=[r.height>>Distance.Foot for r in tr]; M=[r.mach for r in tr]
    S=[y-x*math.tan(lar) for x,y in zip(X,Y)]
    ups=[i for i in range(1,len(tr)) if S[i-1]<0 and S[i]>0]
    downs=[i for i in range(2,len(tr)) if S[i-1]>0 and S[i]<0]
    ties=any(s==0 for s in S[1:]) or S[0]==0
    machs=[i for i in range(1,len(tr)) if M[i-1]>1 and M[i]<1]
    mt=any(m==1 for m in M)
    try: rows=c.fire(shot, Distance.Foot(R), Distance.Foot(step), True).trajectory
    except RangeError as e: rows=e.incomplete_trajectory
    out=[]
    zu=[r for r in rows if r.flag&1]; zd=[r for r in rows if r.flag&2]; mr=[r for r in rows if r.flag&4]
    # restrict events to those within range covered by rows
    # events whose crossing step straddles the end of the requested range are don't-care
    amb=lambda i: X[i]>=R-1e-9
    strad=any(amb(i) for i in ups+downs+machs)
    ups=[i for i in ups if not amb(i)]; downs=[i for i in downs if not amb(i)]; machs=[i for i in machs if not amb(i)]
    dn=[]
    if not ties and not strad:
        if len(zu)!=(1 if ups else 0): out.append(('ZU count',len(zu),ups[:3]))
        # down: first down after first up, or if starting above
        if S[0]>0: dn=[i for i in downs]
        else: dn=[i for i in downs if ups and i>ups[0]]
        if len(zd)!=(1 if dn else 0): out.append(('ZD count',len(zd),dn[:3],S[0]))
    if not mt and not strad and len(mr)!=len(machs): out.append(('MACH count',len(mr),machs[:3]))
    def near(r,i,kind):
        x=r.distance>>Distance.Foot
        if not (X[i-1]-1e-9<=x<=X[i]+1e-9): out.append((kind,'row not in crossing step',x,X[i-1],X[i]))
        steplen=math.dist((X[i-1],Y[i-1]),(X[i],Y[i]))
        slope=abs(math.tan((r.angle>>Angular.Radian)-lar))
        if kind!='M':
            if abs(r.target_drop>>Distance.Foot)>steplen*slope*1.01+1e-9: out.append((kind,'tdrop',r.target_drop>>Distance.Foot,steplen*slope))
        else:
            d=M[i-1]-M[i]; comb=bool(r.flag&8)
            lo=1-d*1.01-1e-12; hi=1+(d*1.01 if comb else 0)+1e-12
            if not (lo<=r.mach<=hi): out.append((kind,'mach',r.mach,lo,hi))
    if zu and ups: near(zu[0],ups[0],'U')
    if zd and dn: near(zd[0],dn[0],'D')
    for r,i in zip(mr,machs): near(r,i,'M')
    if not all(a.time<b.time for a,b in zip(rows,rows[1:])): out.append(('time order',))
    return out, (len(ups),len(downs),len(machs))
t0=time.time(); n=0; nb=0; stats={}
for sh in (2,0,-1):
  for bar in ('z100','z300','along','below'):
    for la in (0,20,-20):
      for mv in (2750,1150,1000):
        w=Weapon(sh,0); shot=Shot(w, Ammo(dm,Velocity.FPS(mv)), look_angle=Angular.Degree(la))
        try:
            if bar=='z100': c.set_weapon_zero(shot, Distance.Yard(100))
            elif bar=='z300': c.set_weapon_zero(shot, Distance.Yard(300))
            elif bar=='below': w.zero_elevation=Angular.MOA(-5)
        except Exception as e:
            continue
        R=1200*math.cos(math.radians(la)); tr=trace(shot,R)
        steps=[300.0, 21.0]
        # collision steps
        lar=math.radians(la); X=[r.distance>>Distance.Foot for r in tr]; S=[(r.height>>Distance.Foot)-x*math.tan(lar) for r,x in zip(tr,X)]; M=[r.mach for r in tr]
        for i in range(1,len(tr)):
            if (S[i-1]<0<S[i]) or (S[i-1]>0>S[i] and i>1) or (M[i-1]>1>M[i]):
                steps.append((X[i-1]+X[i])/2); steps.append(X[i]); steps.append((X[i-1]+X[i])/2/3)
        for st in steps:
            if st<0.5: continue
            o,ev=check(shot,la,R,st,tr); n+=1; stats[ev]=stats.get(ev,0)+1
            if o: nb+=1; print(sh,bar,la,mv,st,o[:2])
print('cases',n,'bad',nb,'event profiles',stats,time.time()-t0)

import sys, math, itertools
sys.path.insert(0,'/repo')
import warnings; warnings.simplefilter('ignore')
from py_ballisticcalc import *
from py_ballisticcalc import trajectory_calc as tcmod
dm=DragModel(0.223,TableG7)
over={'max_calc_step_size_feet':0.2,'chart_resolution':0.7,'cZeroFindingAccuracy':0.01,'cMinimumVelocity':2000.0,'cMaximumDrop':-1.0,'cMaxIterations':1,'cGravityConstant':-10.0,'cMinimumAltitude':-0.5}
keys=list(over)
def observe(calc):
    o={}
    # step: first-step advance in vacuum at level fire
    shot=Shot(Weapon(0,0),Ammo(dm,Velocity.FPS(2500)),atmo=Vacuum())
    cfgfree=Calculator(_config={'cMinimumVelocity':0,'cMaximumDrop':-1e9,'cMinimumAltitude':-1e9})
    try: tr=calc.fire(shot,Distance.Foot(3),Distance.Foot(30),False,1e-12).trajectory
    except RangeError as e: tr=e.incomplete_trajectory
    o['step']=round((tr[1].distance>>Distance.Foot)-(tr[0].distance>>Distance.Foot),6)
    # gravity: vacuum drop after t
    t=tr[1].time; o['g']=round(2*((tr[1].height>>Distance.Foot)-(tr[0].height>>Distance.Foot))/(t*t),3) if t else None  # semi-implicit: dy = g dt^2 -> g = dy/dt^2
    # limits
    def reason(shot,R):
        try: calc.fire(shot,Distance.Yard(R),Distance.Yard(R)); return 'ok'
        except RangeError as e: return e.reason.split()[1]+':%.1f'%(e.incomplete_trajectory[-1].velocity>>Velocity.FPS)
    o['vel']=reason(Shot(Weapon(0,0),Ammo(dm,Velocity.FPS(2500))),600)
    try: calc.fire(Shot(Weapon(0,0),Ammo(dm,Velocity.FPS(2500)),relative_angle=Angular.Degree(-1)),Distance.Yard(300),Distance.Yard(300)); o['drop']='ok'
    except RangeError as e: o['drop']=e.reason.split()[1]+':%.2f'%(e.incomplete_trajectory[-1].height>>Distance.Foot)
    # zero accuracy / iterations
    s=Shot(Weapon(2,0),Ammo(dm,Velocity.FPS(2500)))
    try: z=calc.set_weapon_zero(s,Distance.Yard(100)); o['zero']='ok'
    except ZeroFindingError as e: o['zero']='ZFE it=%d'%e.iterations_count
    except RangeError as e: o['zero']='RE'
    return o
base=observe(Calculator())
print('default',base)
bad=0
for r in range(0,9):
    for sub in itertools.combinations(keys,r):
        cfg={k:over[k] for k in sub}
        c=Calculator(_config=cfg); d=Calculator()
        cc=c._calc._config
        for k in keys:
            exp=over[k] if k in sub else getattr(Calculator()._calc._config,k)
            if getattr(cc,k)!=exp: bad+=1
        if observe(d)!=base: bad+=1; print('default calc affected by',sub)
print('subsets',2**8,'bad',bad)
for k in keys: print(k, observe(Calculator(_config={k:over[k]})))
# global step histories
reset_globals(); a=Calculator(); set_global_max_calc_step_size(Distance.Foot(0.25)); b=Calculator(); reset_globals(); c=Calculator()
print([x._calc._config.max_calc_step_size_feet for x in (a,b,c)])
for v in (0,-1,Distance.Foot(0)):
    try: set_global_max_calc_step_size(v); print('accepted',v)
    except ValueError: pass
print(tcmod._globalMaxCalcStepSizeFeet, tcmod.cGravityConstant)

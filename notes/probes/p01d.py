import math, sys
exec(open('p01c.py').read().split("base=dict(")[0])
base=dict(dm='G7',bc=.223,mv=2750,sh=2,look=0,zero=5/60,rel=0,cant=0,atmo='icao',wind='none')
cell=dict(base,mv=1150,wind='seg3')
shot=build(cell)
dists=[30.0*k for k in range(1,31)]
R=max(dists)
hs=(0.5,0.25,0.125,0.0625,0.03125)
rows={h:Calculator(_config={'max_calc_step_size_feet':h}).fire(shot, Distance.Foot(R), Distance.Foot(30)).trajectory for h in hs}
ref=ref_solve(shot,Calculator(),dists); ref2=ref_solve(shot,Calculator(),dists,dt=2e-5)
for k,D in enumerate(dists):
    t,s=ref[k]; rv=math.sqrt(s[3]**2+s[4]**2+s[5]**2); t2,s2=ref2[k]; rv2=math.sqrt(s2[3]**2+s2[4]**2+s2[5]**2)
    es=[(rows[h][k+1].velocity>>Velocity.FPS)-rv for h in hs]
    print(f'D={D:6.1f} v={rv:8.3f} mach={rows[0.5][k+1].mach:.4f} referr={rv-rv2:+.1e} ', ' '.join(f'{e:+.2e}' for e in es))

import math, sys
sys.path.insert(0,'/repo')
import warnings; warnings.simplefilter('ignore')
from py_ballisticcalc import *

def ref_solve(shot, calc, dists_ft, dt=2e-5, g=-32.17405):
    tc = calc._calc
    tc._init_trajectory(shot)
    la = shot.look_angle >> Angular.Radian
    e = shot.barrel_elevation >> Angular.Radian
    a = shot.barrel_azimuth >> Angular.Radian
    cant = shot.cant_angle >> Angular.Radian
    sh = shot.weapon.sight_height >> Distance.Foot
    alt0 = shot.atmo.altitude >> Distance.Foot
    mv = shot.ammo.get_velocity_for_temp(shot.atmo.powder_temp) >> Velocity.FPS
    winds = [(w.until_distance >> Distance.Foot, w.vector) for w in shot.winds]
    def wind_at(x):
        for u, v in winds:
            if x < u: return v
        return (0.0,0.0,0.0)
    s = [0.0, -math.cos(cant)*sh, -math.sin(cant)*sh, mv*math.cos(e)*math.cos(a), mv*math.sin(e), mv*math.cos(e)*math.sin(a)]
    def f(s):
        x,y,z,vx,vy,vz = s
        w = wind_at(x)
        ax_,ay_,az_ = vx-w[0], vy-w[1], vz-w[2]
        va = math.sqrt(ax_*ax_+ay_*ay_+az_*az_)
        dens, mach = shot.atmo.get_density_factor_and_mach_for_altitude(alt0+y)
        k = dens*va*tc.drag_by_mach(va/mach)
        return [vx,vy,vz,-k*ax_, -k*ay_+g, -k*az_]
    def rk4(s,h):
        k1=f(s); k2=f([s[i]+0.5*h*k1[i] for i in range(6)]); k3=f([s[i]+0.5*h*k2[i] for i in range(6)]); k4=f([s[i]+h*k3[i] for i in range(6)])
        return [s[i]+h/6*(k1[i]+2*k2[i]+2*k3[i]+k4[i]) for i in range(6)]
    out=[]; t=0.0
    for D in dists_ft:
        while True:
            n = rk4(s,dt)
            if n[0] >= D:
                # bisect on h
                lo,hi=0.0,dt
                for _ in range(60):
                    mid=(lo+hi)/2
                    if rk4(s,mid)[0] >= D: hi=mid
                    else: lo=mid
                r = rk4(s,hi); out.append((t+hi, r)); break
            s=n; t+=dt
    return out

if __name__=='__main__':
    import time
    dm = DragModel(0.223, TableG7, 168, 0.308, 1.282)
    cases = {
     'base': Shot(Weapon(2,0,Angular.MOA(10)), Ammo(dm, Velocity.FPS(2750))),
     'wind3': Shot(Weapon(2,0,Angular.MOA(10)), Ammo(dm, Velocity.FPS(2750)), winds=[Wind(Velocity.MPH(20),Angular.Degree(90),Distance.Yard(100)),Wind(Velocity.MPH(30),Angular.Degree(200),Distance.Yard(250)),Wind(Velocity.MPH(10),Angular.Degree(0),Distance.Yard(400))]),
     'look30cant': Shot(Weapon(2,0,Angular.MOA(20)), Ammo(dm, Velocity.FPS(2750)), look_angle=Angular.Degree(30), cant_angle=Angular.Degree(30)),
     'trans_alt': Shot(Weapon(2,0,Angular.Degree(3)), Ammo(DragModel(0.3,TableG1), Velocity.FPS(1200)), atmo=Atmo(Distance.Foot(5000), Pressure.InHg(24), Temperature.Fahrenheit(95), 60)),
     'vac': Shot(Weapon(2,0,Angular.Degree(1)), Ammo(dm, Velocity.FPS(2750)), atmo=Vacuum()),
    }
    for name, shot in cases.items():
        R=500*3; dists=[R*k/5 for k in range(1,6)]
        res={}
        for h in (0.5,0.25,0.125):
            c=Calculator(_config={'max_calc_step_size_feet':h})
            res[h]=c.fire(shot, Distance.Foot(R), Distance.Foot(R/5)).trajectory
        t0=time.time(); ref=ref_solve(shot, Calculator(), dists); ref2=ref_solve(shot, Calculator(), dists, dt=4e-5); tr=time.time()-t0
        print(name, f'ref time {tr:.1f}s')
        for k,D in enumerate(dists):
            rows=[res[h][k+1] for h in (0.5,0.25,0.125)]
            t,s=ref[k]; t2,s2=ref2[k]
            def col(r): return (r.height>>Distance.Foot, r.windage>>Distance.Foot, r.velocity>>Velocity.FPS, r.time)
            refc=(s[1], s[2], math.sqrt(s[3]**2+s[4]**2+s[5]**2), t)
            refc2=(s2[1], s2[2], math.sqrt(s2[3]**2+s2[4]**2+s2[5]**2), t2)
            c0,c1,c2=col(rows[0]),col(rows[1]),col(rows[2])
            print(f'  D={D:7.1f}', ' '.join(f'[e={abs(c0[i]-refc[i]):.2e} e2={abs(c1[i]-refc[i]):.2e} e4={abs(c2[i]-refc[i]):.2e} d={abs(c0[i]-c1[i]):.2e} rerr={abs(refc[i]-refc2[i]):.1e}]' for i in range(4)))

import sys, math, itertools
sys.path.insert(0,'/repo')
import warnings; warnings.simplefilter('ignore')
from py_ballisticcalc import *
bad={}
def note(k,i): bad.setdefault(k,[]).append(i)
n=0
for fp in ('FFP','SFP','LWIR'):
  for (h,v) in ((0.1,0.25),(0.25,0.1),(1,1)):
    for cu in (Unit.Mil,Unit.MOA,Unit.MRad,Unit.Degree,Unit.InchesPer100Yd,Unit.CmPer100m):
      for cal in (Unit.Meter(100),Unit.Yard(100),Unit.Meter(50)):
        for td in (Unit.Meter(50),Unit.Yard(100),Unit.Foot(250),Unit.Meter(1000)):
          for mag in (1,2.5,10):
            for corr in (0.3,-1,7.7):
              PreferredUnits.defaults()
              s=Sight(fp, Unit.Meter(cal>>Unit.Meter), cu(h), cu(v)); n+=1
              d=Unit.Mil(corr); w=Unit.Mil(-corr/2)
              r=s.get_adjustment(Unit.Meter(td>>Unit.Meter), d, w, mag)
              hr=cu(h).raw_value; vr=cu(v).raw_value
              if fp=='FFP': eh,ev=hr,vr
              elif fp=='LWIR': eh,ev=hr/mag,vr/mag
              else:
                  f=(cal.raw_value/td.raw_value)*mag; eh,ev=hr*f,vr*f
              ev_=d.raw_value/ev; eh_=w.raw_value/eh
              if abs(r.vertical-ev_)>1e-6*abs(ev_): note((fp,'vert'),(h,v,str(cu),mag,r.vertical,ev_))
              if abs(r.horizontal-eh_)>1e-6*abs(eh_): note((fp,'horiz'),(h,v,str(cu),mag,r.horizontal,eh_))
print('sight cases',n,{k:(len(v),v[0]) for k,v in bad.items()})
for args in (('XFP',1,1,1),('SFP',None,Unit.Mil(1),Unit.Mil(1)),('FFP',1,Unit.Mil(0),Unit.Mil(1)),('FFP',1,Unit.Mil(-1),Unit.Mil(1)),('FFP',1,None,Unit.Mil(1))):
    try: Sight(*args); print('accepted',args)
    except Exception as e: print('rejected',args[0],type(e).__name__)
# C17
bad=0;n=0
for v0 in (800.,2750.):
  for T0 in (15.,0.,-10.):
    for dv in (-60,-20,20,60):
      for dT in (-25,-15,10,30):
        a=Ammo(DragModel(0.3,TableG7), Velocity.FPS(v0), Temperature.Celsius(T0), use_powder_sensitivity=True)
        a.calc_powder_sens(Velocity.FPS(v0+dv), Temperature.Celsius(T0+dT)); n+=1
        got=a.get_velocity_for_temp(Temperature.Celsius(T0+dT))>>Velocity.FPS
        if abs(got-(v0+dv))>1e-9*v0: bad+=1
print('C17 cases',n,'bad',bad)
# C14 law
import bisect
def interp(x,xp,yp):
    if x<=xp[0]: return yp[0]
    if x>=xp[-1]: return yp[-1]
    i=bisect.bisect_right(xp,x)-1
    return yp[i]+(yp[i+1]-yp[i])*(x-xp[i])/(xp[i+1]-xp[i])
bad=0;n=0
for k in (1,2,3):
  for ms in itertools.permutations((0.5,1.0,2.0,3.0),k):
    for bcs in itertools.product((0.2,0.25,0.3),repeat=k):
      for wd in ((0,0),(168,0.308)):
        pts=[BCPoint(b,Mach=m) for b,m in zip(bcs,ms)]
        dmm=DragModelMultiBC(pts, TableG7, *wd); n+=1
        sp=sorted(zip(ms,bcs))
        for p,std in zip(dmm.drag_table,TableG7):
            eff=std['CD']*dmm.BC/p.CD; ex=interp(std['Mach'],[a for a,b in sp],[b for a,b in sp])
            if abs(eff-ex)>1e-12*ex: bad+=1; break
print('C14 law cases',n,'bad',bad)

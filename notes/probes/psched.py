import sys, threading, time
sys.path.insert(0,'/repo')
import warnings; warnings.simplefilter('ignore')
from py_ballisticcalc import *
LIB='/repo/py_ballisticcalc'
class Sched:
    def __init__(self, bodies, schedule):
        self.n=len(bodies); self.bodies=bodies; self.schedule=schedule  # schedule: dict point_index -> thread to switch to
        self.sems=[threading.Semaphore(0) for _ in bodies]; self.done=[False]*self.n
        self.points=[]  # (tid, fname, lineno)
        self.results=[None]*self.n; self.cur=0
        self.main=threading.Semaphore(0)
    def tracer(self, tid):
        def tr(frame, event, arg):
            if event=='call' and frame.f_code.co_filename.startswith(LIB):
                self.point(tid, frame)
            return None
        return tr
    def point(self, tid, frame):
        idx=len(self.points); self.points.append((tid, frame.f_code.co_name))
        nxt=self.schedule.get(idx)
        if nxt is not None and nxt!=tid and not self.done[nxt]:
            self.cur=nxt; self.sems[nxt].release(); self.sems[tid].acquire()
    def run_thread(self, tid):
        self.sems[tid].acquire()
        sys.settrace(self.tracer(tid))
        try: self.results[tid]=self.bodies[tid]()
        except Exception as e: self.results[tid]=('EXC',repr(e))
        sys.settrace(None)
        self.done[tid]=True
        # hand over to any not-done thread
        for j in range(self.n):
            if not self.done[j]:
                self.cur=j; self.sems[j].release(); return
        self.main.release()
    def run(self):
        ths=[threading.Thread(target=self.run_thread,args=(i,)) for i in range(self.n)]
        for t in ths: t.start()
        self.sems[0].release(); self.main.acquire()
        for t in ths: t.join()
        return self.results
dm=DragModel(0.223,TableG7); ammo=Ammo(dm,Velocity.FPS(2750))
def body(k):
    def f():
        shot=Shot(Weapon(2,0,Angular.MOA(5+k)), ammo, winds=[Wind(Velocity.MPH(5*k),Angular.Degree(90))])
        c=Calculator()
        r=c.fire(shot, Distance.Foot(1.0), Distance.Foot(0.5)).trajectory
        return tuple((x.time, x.height.raw_value, x.windage.raw_value) for x in r)
    return f
solo=[body(0)(), body(1)()]
t0=time.time()
s=Sched([body(0),body(1)],{}); r=s.run(); npts0=sum(1 for p in s.points if p[0]==0); print('points', len(s.points), npts0, r==solo)
n=0; ok=True
for i in range(npts0):
    s=Sched([body(0),body(1)],{i:1}); r=s.run(); n+=1; ok=ok and (r==solo)
print('1-preemption schedules', n, ok, time.time()-t0)

import sys, types, struct, threading
sys.path.insert(0,'/repo')
import warnings; warnings.simplefilter('ignore')
import py_ballisticcalc
from py_ballisticcalc import *
LIB='/repo/py_ballisticcalc'
mods=[m for n,m in sys.modules.items() if n.startswith('py_ballisticcalc') and m is not None]
def fp(obj, seen, depth=0):
    if isinstance(obj,float): return ('f',struct.pack('>d',obj))
    if isinstance(obj,(int,str,bool,type(None),bytes)): return ('v',obj)
    if isinstance(obj,(types.ModuleType,types.FunctionType,types.BuiltinFunctionType,type,types.MethodType,property,classmethod,staticmethod)): return ('ref',getattr(obj,'__name__',str(type(obj))))
    if id(obj) in seen: return ('cyc',)
    seen=seen|{id(obj)}
    if isinstance(obj,(list,tuple)): return ('l',tuple(fp(x,seen) for x in obj))
    if isinstance(obj,dict): return ('d',tuple((str(k),fp(v,seen)) for k,v in obj.items()))
    if isinstance(obj,(set,frozenset)): return ('s',len(obj))
    d={}
    if hasattr(obj,'__dict__'): d.update(vars(obj))
    for c in type(obj).__mro__:
        for s in getattr(c,'__slots__',()): 
            if hasattr(obj,s): d[s]=getattr(obj,s)
    if d: return ('o',type(obj).__name__,tuple((k,fp(v,seen)) for k,v in sorted(d.items())))
    return ('x',type(obj).__name__)
def global_fp(extra=()):
    out=[]
    for m in mods:
        for k,v in sorted(vars(m).items()):
            if k.startswith('__'): continue
            if isinstance(v,(types.ModuleType,types.FunctionType)): continue
            if isinstance(v,type):
                if getattr(v,'__module__','').startswith('py_ballisticcalc'):
                    out.append((m.__name__,k,tuple((a,fp(b,frozenset())) for a,b in sorted(vars(v).items()) if not a.startswith('__') and not callable(b) and not isinstance(b,(property,classmethod,staticmethod)))))
                continue
            out.append((m.__name__,k,fp(v,frozenset())))
    for e in extra: out.append(('extra',fp(e,frozenset())))
    return hash(repr(out))
dm=DragModel(0.223,TableG7,168,0.308,1.2); ammo=Ammo(dm,Velocity.FPS(2750)); atmo=Atmo.icao(Distance.Foot(100)); winds=[Wind(Velocity.MPH(5),Angular.Degree(90),Distance.Yard(50))]
shot=Shot(Weapon(2,12,Angular.MOA(4)), ammo, atmo=atmo, winds=winds)
R=Distance.Foot(1.0); S=Distance.Foot(0.5)
c=Calculator()
c.fire(shot,R,S)  # warm
base=global_fp((ammo,dm,atmo,winds))
changes=[]; n=[0]
def tr(frame,event,arg):
    if event=='call' and frame.f_code.co_filename.startswith(LIB):
        n[0]+=1
        sys.settrace(None)
        g=global_fp((ammo,dm,atmo,winds))
        if g!=base: changes.append((n[0],frame.f_code.co_name))
        sys.settrace(tr)
    return None
sys.settrace(tr)
r=c.fire(shot,R,S)
z=c.set_weapon_zero(shot, Distance.Foot(2))
sys.settrace(None)
print('points',n[0],'points with changed shared fingerprint',len(changes),changes[:5])

import math, sys, time
sys.path.insert(0,'/repo')
import warnings; warnings.simplefilter('ignore')
from py_ballisticcalc import *
c=Calculator()
def sg(shot, mv):
    tw=shot.weapon.twist>>Distance.Inch; d=shot.ammo.dm.diameter>>Distance.Inch; l=shot.ammo.dm.length>>Distance.Inch; w=shot.ammo.dm.weight>>Weight.Grain
    if not (tw and d and l): return 0
    t=abs(tw)/d; L=l/d
    s=30*w/(t*t*d**3*L*(1+L*L))
    fv=(mv/2800)**(1/3)
    ft=shot.atmo.temperature>>Temperature.Fahrenheit; pt=shot.atmo.pressure>>Pressure.InHg
    return s*fv*((ft+460)/(59+460))*(29.92/pt)
worst={}
def upd(k,v):
    if v>worst.get(k,0): worst[k]=v
for la in (0,20,-20,45):
  for atmo in (Atmo.icao(), Atmo.icao(Distance.Foot(5000)), Atmo(Distance.Foot(1000),Pressure.InHg(27),Temperature.Fahrenheit(100),50)):
    for tw in (12,-8,0):
      for (w,d,l) in ((168,0.308,1.282),(168,0.308,0),(0,0.308,1.2)):
        dm=DragModel(0.223,TableG7,w,d,l)
        shot=Shot(Weapon(2,tw,Angular.Degree(2)), Ammo(dm,Velocity.FPS(2750)), look_angle=Angular.Degree(la), atmo=atmo)
        shot0=Shot(Weapon(2,0,Angular.Degree(2)), Ammo(dm,Velocity.FPS(2750)), look_angle=Angular.Degree(la), atmo=atmo)
        rows=c.fire(shot, Distance.Yard(800), Distance.Yard(50), True).trajectory
        rows0=c.fire(shot0, Distance.Yard(800), Distance.Yard(50), True).trajectory
        S=sg(shot,2750); lar=math.radians(la); alt0=atmo.altitude>>Distance.Foot
        for r,r0 in zip(rows,rows0):
            x=r.distance>>Distance.Foot; y=r.height>>Distance.Foot; v=r.velocity>>Velocity.FPS; t=r.time; wd=r.windage>>Distance.Foot
            dens,a=atmo.get_density_factor_and_mach_for_altitude(alt0+y)
            upd('mach', abs(r.mach-v/a)/r.mach)
            upd('energy', abs((r.energy>>Energy.FootPound) - w*v*v/450400)/max(1,w*v*v/450400))
            upd('energy_phys', abs((r.energy>>Energy.FootPound) - (w/7000/32.17405)*v*v/2)/max(1,w*v*v/450400))
            upd('ogw', abs((r.ogw>>Weight.Pound) - w*w*v**3*1.5e-12)/max(1e-9,w*w*v**3*1.5e-12))
            upd('tdrop', abs((r.target_drop>>Distance.Foot)-(y-x*math.tan(lar))*math.cos(lar)))
            upd('ldist', abs((r.look_distance>>Distance.Foot)-x/math.cos(lar)))
            if x>0:
                upd('dropadj', abs((r.drop_adj>>Angular.Radian)-(math.atan(y/x)-lar)))
                upd('wadj', abs((r.windage_adj>>Angular.Radian)-math.atan(wd/x)))
            else:
                upd('adj0', abs(r.drop_adj>>Angular.Radian)+abs(r.windage_adj>>Angular.Radian))
            sd=(r.windage>>Distance.Foot)-(r0.windage>>Distance.Foot)
            exp=(1 if tw>0 else -1)*1.25*(S+1.2)*t**1.83/12 if (S and tw) else 0
            upd('spin', abs(sd-exp))
print(worst)

import sys, math, itertools, time
sys.path.insert(0,'/repo')
import warnings; warnings.simplefilter('ignore')
from py_ballisticcalc import *
c=Calculator()
dm=DragModel(0.223,TableG7,168,0.308,1.2)
def mk(name):
    w=Weapon(2,0,Angular.MOA(5))
    if name=='nowind': return Shot(w,Ammo(dm,Velocity.FPS(2750)))
    if name=='tail20': return Shot(w,Ammo(dm,Velocity.FPS(2750)),winds=[Wind(Velocity.MPH(20),Angular.Degree(0))])
    if name=='tail60slow': return Shot(w,Ammo(dm,Velocity.FPS(900)),winds=[Wind(Velocity.MPH(60),Angular.Degree(0))])
    if name=='head20': return Shot(w,Ammo(dm,Velocity.FPS(2750)),winds=[Wind(Velocity.MPH(20),Angular.Degree(180))])
    if name=='cross10': return Shot(w,Ammo(dm,Velocity.FPS(2750)),winds=[Wind(Velocity.MPH(10),Angular.Degree(90))])
    if name=='quarter': return Shot(w,Ammo(dm,Velocity.FPS(2750)),winds=[Wind(Velocity.MPH(5),Angular.Degree(-45))])
    if name=='elev60': return Shot(Weapon(2,0,Angular.Degree(60)),Ammo(dm,Velocity.FPS(2750)))
    if name=='look20': return Shot(w,Ammo(dm,Velocity.FPS(2750)),look_angle=Angular.Degree(20))
    if name=='cant90': return Shot(w,Ammo(dm,Velocity.FPS(2750)),cant_angle=Angular.Degree(90))
def trace(shot,R): return c.fire(shot, Distance.Foot(R), Distance.Foot(R*10), False, 1e-12).trajectory
na=math.nextafter
res={}
t0=time.time()
for name in ('nowind','tail20','tail60slow','head20','cross10','quarter','elev60','look20','cant90'):
    shot=mk(name); tr=trace(shot,20); X=[r.distance>>Distance.Foot for r in tr]
    n=0; bad=0; first=None
    for i in range(8,min(60,len(X)-2)):
        x0,x1=X[i],X[i+1]; cs=0.25
        Rs=[na(x0,0),x0,na(x0,99),(x0+x1)/2,na(x1-cs,0),x1-cs,na(x1-cs,99)]
        if x1-x0>cs: Rs.append((x0+(x1-cs))/2)
        for R in Rs:
            for st in (R,R/2,R/3,None,0.5,0.7):
                try:
                    rows=c.fire(shot, Distance.Foot(R), Distance.Foot(st) if st else 0).trajectory
                except RangeError: continue
                n+=1; s=st if st else R/10
                if s<0.5: 
                    # default step R/10 <0.5 for short R: outside precondition except row count 11? skip
                    continue
                K=int(math.floor(R/s*(1+1e-12)+1e-12))
                rr=[r for r in rows if r.flag&8]
                d=[r.distance>>Distance.Foot for r in rr]
                ok=len(d) in (K+1,K+2) and all(abs(d[k]-k*s)<=1e-9*max(1,k*s) for k in range(K+1)) and all(a<b for a,b in zip(d,d[1:])) and (len(d)==K+1 or d[-1]<=R+0.5+1e-9)
                extra=[r for r in rows if not r.flag&8]
                if extra and len(rr)>=2: ok=False
                if not ok:
                    bad+=1
                    if first is None: first=(R,st,d,K,[ (r.distance>>Distance.Foot,r.flag) for r in extra])
    res[name]=(n,bad,first, X[11]-X[10])
    print(name,res[name])
print(time.time()-t0)

import sys, math, itertools
sys.path.insert(0,'/repo')
import warnings; warnings.simplefilter('ignore')
from py_ballisticcalc import *
from py_ballisticcalc.helpers import *
from py_ballisticcalc.trajectory_data import TrajFlag
Z=Distance.Foot(0); A=Angular.Radian(0)
def row(t,d,h=0.0):
    return TrajectoryData(float(t), Distance.Meter(d), Velocity.FPS(1000), 1.0, Distance.Meter(h), Distance.Foot(0), A, Z, A, Distance.Meter(d), A, 0.0,0.0, Energy.FootPound(0), Weight.Pound(0), TrajFlag.RANGE)
shot=None
def seqs(n, vals):
    for c in itertools.combinations_with_replacement(vals,n): yield c
bad={}
def note(k,info): 
    bad.setdefault(k,[]).append(info)
n=0
for L in range(0,6):
    for ts in seqs(L,(0,1,2,3)):
        rows=[row(t,t) for t in ts]; hr=HitResult(shot, rows, True)
        for q in [x/2 for x in range(0,8)]:
            n+=1
            exp=next((i for i,r in enumerate(rows) if r.distance>>Distance.Meter >= q), -1)
            got=hr.index_at_distance(Distance.Meter(q))
            if got!=exp: note('index_at_distance',(ts,q,got,exp))
            got=find_index_of_point_for_distance(hr,q,Distance.Meter)
            if got!=exp: note('find_idx_dist',(ts,q,got,exp))
            t=find_time_for_distance_in_shot(hr,q,Distance.Meter)
            if exp<0:
                if not math.isnan(t): note('time_for_dist',(ts,q,t))
            elif t!=rows[exp].time: note('time_for_dist',(ts,q,t))
            expt=next((i for i,r in enumerate(rows) if r.time>=q), -1)
            try: got=find_index_for_time_point(hr,q,True)
            except Exception as e: got=type(e).__name__
            if got!=expt: note('time_strict',(ts,q,got,expt))
            for dev in (0,0.4,0.5,1):
                try: got=find_index_for_time_point(hr,q,False,dev)
                except Exception as e: got=type(e).__name__
                if rows:
                    m=min(abs(r.time-q) for r in rows)
                    if m>dev: ok=(got==-1)
                    else:
                        cands=[i for i,r in enumerate(rows) if abs(r.time-q)==m]
                        tmin=min(rows[i].time for i in cands)
                        ok = isinstance(got,int) and got in cands and rows[got].time==tmin
                else: ok=(got==-1)
                if not ok: note('time_nearest',(ts,q,dev,got))
print('cases',n,{k:(len(v),v[:3]) for k,v in bad.items()})
# apex
class P: 
    def __init__(s,h): s.height=h
nb=0;na=0
for L in range(0,8):
    for peak in range(L):
        # strictly unimodal sequences: choose values
        for up in itertools.combinations(range(1,8),peak):
            for down in itertools.combinations(range(1,8),L-peak-1):
                hs=list(up)+[9]+list(reversed(down)); na+=1
                if find_index_of_apex_in_points([P(h) for h in hs])!=peak: nb+=1
print('apex cases',na,'bad',nb, find_index_of_apex_in_points([]))

import sys, math, itertools
from fractions import Fraction as F
sys.path.insert(0,'/repo')
import warnings; warnings.simplefilter('ignore')
from py_ballisticcalc.unit import *
from py_ballisticcalc.unit import _parse_unit, _parse_value
inch=F(254,10000); lb=F(45359237,100000000); g0=F(980665,100000); gr=lb/7000
lin={Unit.Inch:inch,Unit.Foot:12*inch,Unit.Yard:36*inch,Unit.Mile:63360*inch,Unit.NauticalMile:F(1852),Unit.Millimeter:F(1,1000),Unit.Centimeter:F(1,100),Unit.Meter:F(1),Unit.Kilometer:F(1000),Unit.Line:inch/10,
 Unit.FootPound:12*inch*lb*g0,Unit.Joule:F(1),
 Unit.MmHg:F(133322387415,10**9),Unit.InHg:F(254,10)*F(133322387415,10**9),Unit.Bar:F(100000),Unit.hPa:F(100),Unit.PSI:lb*g0/(inch*inch),
 Unit.MPS:F(1),Unit.KMH:F(10,36),Unit.FPS:12*inch,Unit.MPH:63360*inch/3600,Unit.KT:F(1852,3600),
 Unit.Grain:gr,Unit.Ounce:gr*F(4375,10),Unit.Gram:F(1,1000),Unit.Pound:lb,Unit.Kilogram:F(1),Unit.Newton:1/g0}
pi=math.pi
angl={Unit.Radian:1.0,Unit.Degree:pi/180,Unit.MOA:pi/10800,Unit.Mil:pi/3200,Unit.MRad:1e-3,Unit.Thousandth:pi/3000,Unit.OClock:pi/6}
def to_rad(u,v):
    if u==Unit.InchesPer100Yd: return math.atan(v/3600)
    if u==Unit.CmPer100m: return math.atan(v/10000)
    return v*angl[u]
def from_rad(u,r):
    if u==Unit.InchesPer100Yd: return math.tan(r)*3600
    if u==Unit.CmPer100m: return math.tan(r)*10000
    return r/angl[u]
def toK(u,v):
    return {Unit.Kelvin:v,Unit.Celsius:v+273.15,Unit.Fahrenheit:(v+459.67)*5/9,Unit.Rankin:v*5/9}[u]
def fromK(u,k):
    return {Unit.Kelvin:k,Unit.Celsius:k-273.15,Unit.Fahrenheit:k*9/5-459.67,Unit.Rankin:k*9/5}[u]
groups={}
for u in Unit: groups.setdefault(int(u)//10,[]).append(u)
mags=[0,1,-1,0.1,-0.1,3,7.5,59,273.15,-40,1e-9,1e-6,2.5e3,12345.678,1e6]
bad={}
n=0
for g,us in groups.items():
    for u,v in itertools.product(us,us):
        for m in mags:
            if g==0:
                r=to_rad(u,m)
                if abs(r)>math.radians(60): continue
                exp=from_rad(v,r); scale=abs(exp)
            elif g==5:
                exp=fromK(v,toK(u,m)); scale=max(abs(exp),460)
            else:
                exp=float(F(m)*lin[u]/lin[v]); scale=abs(exp)
            got=u(m)>>v; n+=1
            if abs(got-exp)>1e-6*scale+1e-300: bad.setdefault((str(u),str(v)),[]).append((m,got,exp))
print('conversions',n,'bad pairs',len(bad)); 
for k,v in list(bad.items())[:20]: print(k,v[0])
# parse
fails=[]
for u in Unit:
    for nm in (u.name, u.name.lower(), u.name.upper()):
        if _parse_unit(nm) is None or _parse_unit(nm)!=u or (nm and False): fails.append(('name',nm,_parse_unit(nm)))
for als,u in UnitAliases.items():
    for a in als:
        for nm in (a,a.upper(),a.title()," "+a+" "):
            r=_parse_unit(nm)
            if r is None or r!=u: fails.append(('alias',nm,r))
print('parse_unit fails',len(fails)); print(fails[:12])
f2=[]
for als,u in UnitAliases.items():
    for a in als:
        try:
            r=_parse_value('1.5'+a, Unit.Meter)
            if r.units!=u: f2.append((a,r.units))
        except Exception as e: f2.append((a,type(e).__name__))
print('parse_value fails',f2)
# lower() collisions
low={}
for als,u in UnitAliases.items():
    for a in als: low.setdefault(a.lower(),set()).add(u)
print('collisions',{k:v for k,v in low.items() if len(v)>1})

import math, sys, time
sys.path.insert(0,'/repo')
import warnings; warnings.simplefilter('ignore')
from py_ballisticcalc import *
dm = DragModel(0.223, TableG7, 168, 0.308, 1.282)
def mk(angle, mv=2750, alt=0):
    return Shot(Weapon(2,12), Ammo(dm, Velocity.FPS(mv)), relative_angle=Angular.Degree(angle), atmo=Atmo.icao(Distance.Foot(alt)))
cfgs=[{}, {'cMinimumVelocity':0}, {'cMinimumVelocity':500}, {'cMinimumVelocity':3000}, {'cMaximumDrop':-10}, {'cMaximumDrop':0}, {'cMinimumAltitude':-5}, {'cMinimumAltitude':4990}, {'cMinimumAltitude':1e4},{'cMinimumVelocity':0,'cMaximumDrop':-100,'cMinimumAltitude':-50}]
def key(r): return (r.time, r.distance.raw_value, r.velocity.raw_value, r.mach, r.height.raw_value, r.windage.raw_value, r.flag)
n=0
for ang in (0, 45, 80, 90, -45, -90):
  for mv in (2750, 60, 0):
    for alt in (0,5000):
      for cfg in cfgs:
        for ex in (False,True):
          shot=mk(ang,mv,alt); c=Calculator(_config=cfg)
          full={'cMinimumVelocity':50.0,'cMaximumDrop':-15000.0,'cMinimumAltitude':-1410.748}; full.update(cfg)
          t0=time.time()
          try:
              r=c.fire(shot, Distance.Yard(3000), Distance.Yard(100), ex); out='ok'; rows=r.trajectory
          except RangeError as e:
              out=e.reason; rows=e.incomplete_trajectory
              last=rows[-1]; v=last.velocity>>Velocity.FPS; y=last.height>>Distance.Foot
              viol=[v<full['cMinimumVelocity'], y<full['cMaximumDrop'], alt+y<full['cMinimumAltitude']]
              exp=[RangeError.MinimumVelocityReached,RangeError.MaximumDropReached,RangeError.MinimumAltitudeReached][viol.index(True)] if any(viol) else None
              if exp!=e.reason: print('REASON MISMATCH', ang,mv,alt,cfg,ex,e.reason,exp,v,y)
              for rr in rows[1:-1]:
                  v=rr.velocity>>Velocity.FPS; y=rr.height>>Distance.Foot
                  if v<full['cMinimumVelocity'] or y<full['cMaximumDrop'] or alt+y<full['cMinimumAltitude']: print('EARLY ROW VIOLATES', ang,mv,alt,cfg,ex, v,y)
              if e.last_distance is not last.distance and e.last_distance.raw_value!=last.distance.raw_value: print('LASTDIST')
              # compare to relaxed
              relaxed={'cMinimumVelocity':full['cMinimumVelocity']*0.5,'cMaximumDrop':full['cMaximumDrop']-300,'cMinimumAltitude':full['cMinimumAltitude']-300}
              c2=Calculator(_config=relaxed)
              try: rows2=c2.fire(shot, Distance.Yard(3000), Distance.Yard(100), ex).trajectory
              except RangeError as e2: rows2=e2.incomplete_trajectory
              k1=[key(x) for x in rows[:-1]]; k2=[key(x) for x in rows2[:len(k1)]]
              if k1!=k2: print('PREFIX DIFF', ang,mv,alt,cfg,ex,len(k1),len(rows2))
          n+=1; dt=time.time()-t0
          if dt>5: print('slow',ang,mv,alt,cfg,dt,out,len(rows))
print('cases',n)

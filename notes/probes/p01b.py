import math, sys
exec(open('p01.py').read().split("base=dict(")[0])
cell=dict(dm='G1',bc=.3,mv=1150,sh=0,look=20,zero=3,rel=1,cant=30,atmo='hot',wind='seg3')
import itertools
def run(cell, dists, label):
    shot=build(cell)
    R=max(dists)
    st=dists[0]
    rows={h:Calculator(_config={'max_calc_step_size_feet':h}).fire(shot, Distance.Foot(R), Distance.Foot(st)).trajectory for h in (0.5,0.25,0.125,0.0625)}
    ref=ref_solve(shot,Calculator(),dists)
    print(label)
    for k,D in enumerate(dists):
        t,s=ref[k]; rv=math.sqrt(s[3]**2+s[4]**2+s[5]**2)
        es=[ (rows[h][k+1].velocity>>Velocity.FPS)-rv for h in (0.5,0.25,0.125,0.0625)]
        print(f'  D={D:6.1f} y={s[1]:7.2f} ', ' '.join(f'{e:+.2e}' for e in es))
dists=[15.0*k for k in range(1,21)]
run(cell,dists,'all on')
run(dict(cell,wind='none'),dists,'no wind')
run(dict(cell,atmo='icao'),dists,'icao')
run(dict(cell,mv=2750),dists,'mv2750')

"""Optional audit tool (never part of a verdict): which lines / branch outcomes of the library do the checks execute at all?

Enabled by VERIF_COV=<dir>. Uses sys.monitoring (Python 3.12), so it does not collide with the sys.settrace based E4 scheduler. Every
process (the runner and each forked worker) writes <dir>/<check>-<pid>.json; tools/libcov.py merges them and lists the library lines no
check ever executed and the branches of which only one outcome was ever taken - i.e. candidates for alphabet gaps.
"""
import atexit
import json
import os
import sys

DIR = os.environ.get('VERIF_COV')
TOOL = 3
_lines = set()        # (file, line)
_arcs = set()         # (file, qualname, firstlineno, src_offset, dst_offset)
_dirty = [False]
_tag = ['x']
_linemap = {}
_dsts = {}


def start(repo, tag):
    if not DIR or not hasattr(sys, 'monitoring'):
        return
    mon = sys.monitoring
    if mon.get_tool(TOOL) is not None:
        return
    _tag[0] = tag
    os.makedirs(DIR, exist_ok=True)
    prefix = os.path.join(repo, 'py_ballisticcalc') + os.sep
    mon.use_tool_id(TOOL, 'verifcov')

    def on_line(code, line):
        if code.co_filename.startswith(prefix):
            _lines.add((code.co_filename[len(prefix):], line))
            _dirty[0] = True
        return mon.DISABLE

    def on_branch(code, src, dst):
        if not code.co_filename.startswith(prefix):
            return mon.DISABLE
        k = (code.co_filename[len(prefix):], code.co_qualname, code.co_firstlineno, src, dst)
        seen = _dsts.setdefault((k[0], k[1], k[2], src), set())
        if dst not in seen:
            seen.add(dst)
        if k not in _arcs:
            _arcs.add(k)
            _dirty[0] = True
            if (k[0], k[1], k[2]) not in _linemap:
                import dis
                starts = sorted((o, ln) for o, ln in dis.findlinestarts(code) if ln is not None)
                _linemap[(k[0], k[1], k[2])] = starts
        return mon.DISABLE if len(seen) >= 2 else None      # both outcomes seen: stop paying for this branch

    mon.register_callback(TOOL, mon.events.LINE, on_line)
    mon.register_callback(TOOL, mon.events.BRANCH, on_branch)
    mon.set_events(TOOL, mon.events.LINE | mon.events.BRANCH)
    atexit.register(dump)


def _line_of(starts, off):
    ln = None
    for o, l in starts:
        if o <= off:
            ln = l
        else:
            break
    return ln


def dump():
    if not DIR or not _dirty[0]:
        return
    _dirty[0] = False
    arcs = []
    for f, q, fl, s, d in _arcs:
        st = _linemap.get((f, q, fl), [])
        arcs.append([f, q, s, _line_of(st, s), _line_of(st, d), d])
    path = os.path.join(DIR, f'{_tag[0]}-{os.getpid()}.json')
    tmp = path + '.tmp'
    with open(tmp, 'w') as fh:
        json.dump({'lines': sorted(_lines), 'arcs': arcs}, fh)
    os.replace(tmp, path)

"""E3: drivers that feed abstract step sequences to the REAL _TrajectoryDataFilter / _WindSock through the exact
call protocol _integrate uses (construct, setup_seen_zero, then per point clear_current_flag + should_record)."""
from mc.core import HarnessError


def get_filter_class():
    try:
        from py_ballisticcalc.trajectory_calc import _TrajectoryDataFilter
        return _TrajectoryDataFilter
    except ImportError as e:
        raise HarnessError(f'seam _TrajectoryDataFilter missing: {e}')


def get_windsock_class():
    try:
        from py_ballisticcalc.trajectory_calc import _WindSock
        return _WindSock
    except ImportError as e:
        raise HarnessError(f'seam _WindSock missing: {e}')


def drive_filter(points, range_step, flags, time_step=0.0, look=0.0, barrel_elevation=0.001):
    """points: list of dicts/tuples (x, y, z, t, vx, vy, vz, mach_fps); the first is the muzzle state.
    Returns list of (point_index, data_or_None, current_flag) for every call, in the order _integrate makes them."""
    from py_ballisticcalc import Vector
    F = get_filter_class()
    x, y, z, t, vx, vy, vz, mach = points[0]
    f = F(flags, range_step, Vector(x, y, z), Vector(vx, vy, vz), time_step)
    f.setup_seen_zero(y, barrel_elevation, look)
    out = []
    for i, (x, y, z, t, vx, vy, vz, mach) in enumerate(points):
        f.clear_current_flag()
        d = f.should_record(Vector(x, y, z), Vector(vx, vy, vz), mach, t)
        out.append((i, d, int(f.current_flag)))
    return out


def filter_state(f):
    """canonical fingerprint of the filter's own state (for state counting)"""
    return (int(f.current_flag), int(f.seen_zero), f.time_of_last_record, f.next_record_distance, f.previous_time,
            f.previous_position.x, f.previous_position.y, f.previous_v_mach)

"""C15 - event rows mark each sight-line and sonic crossing once, within one step.
Engine E1 end-to-end (events derived from the full step trace, incl. collision cells) + E3 on the real record filter."""
import itertools
import math

from mc import fsm
from mc.world import make_calc

PID = 'C15'
# thread bodies (defined with engine E4, mc/checks/c10_sched.py) that exercise this property's code; explored after the parts below
SCHED_SETS = [('firex||fire', 'call')]
LEVEL = 'model_checking'
ENGINE = 'E1+E3'
TECHNIQUE = 'exhaustive enumeration of sight/barrel/look/speed configurations x record steps incl. steps that collide with the event step, events derived independently from the full step trace; plus all side/advance/Mach sequences up to depth n through the real record filter against an event reference model'
RULE = ('trace cells = sight height {2,0,-1 in} x barrel {zeroed 100 yd, zeroed 300 yd, along the sight line, -5 MOA} x look {0,+-20 deg} x launch {2750,1150,1000 fps}, plus canted rifles (60, 120, 180 deg) with explicit barrel elevations; '
        'each cell fires range/step (400 yd,100 yd), (400 yd,7 yd) and, for every event found in the step trace, three record steps chosen so that a record distance '
        'falls inside the very step of the event; filter cells = 9 initial conditions x every plausible side sequence (below* above* below* / above* below*) x Mach-ratio '
        'sequence in {>1,<1}^n x advance pattern x 2 range steps, n <= 4 (thorough 5); non-trivial = cell with at least one event in the trace')
ASSUMPTIONS = ['exact ties (a point exactly on the sight line, Mach exactly 1) and events whose crossing step straddles the end of the requested range are do-not-care; for a start exactly on the sight line (sight height 0) ZERO_DOWN is do-not-care, but no ZERO_UP may appear (leaving the line at the muzzle is not a crossing beyond the muzzle)',
               'a combined RANGE|event row is interpolated inside the crossing step: its Mach may lie within one step\'s deceleration on either side of 1 (lenient)',
               'grid values only']
LEVEL_TEXT = ('Events are a property of the whole step sequence; the filter state machine (seen_zero, previous_v_mach, current_flag) is driven through every plausible '
              'sequence up to the depth bound and, end to end, through record steps that collide with the event step.')


def _trace(calc, shot, R):
    import py_ballisticcalc as pb
    U = pb.Unit
    try:
        return calc.fire(shot, U.Foot(R), U.Foot(R * 10), False, 1e-12).trajectory
    except pb.RangeError as e:
        return e.incomplete_trajectory


def check(calc, shot, la, R, step, tr, time_step=0.0):
    import py_ballisticcalc as pb
    U = pb.Unit
    lar = math.radians(la)
    X = [r.distance >> U.Foot for r in tr]
    Y = [r.height >> U.Foot for r in tr]
    M = [r.mach for r in tr]
    S = [y - x * math.tan(lar) for x, y in zip(X, Y)]
    # "beyond the muzzle": a crossing counts when the point after it lies down-range of the muzzle (x > 0)
    ups = [i for i in range(1, len(tr)) if S[i - 1] < 0 < S[i] and X[i] > 0]
    downs = [i for i in range(1, len(tr)) if S[i - 1] > 0 > S[i] and X[i] > 0]
    ties = any(s == 0 for s in S[1:])
    start_tie = S[0] == 0
    machs = [i for i in range(1, len(tr)) if M[i - 1] > 1 > M[i]]
    mt = any(m == 1 for m in M)
    try:
        rows = calc.fire(shot, U.Foot(R), U.Foot(step), True, time_step).trajectory
    except pb.RangeError as e:
        rows = e.incomplete_trajectory
    out = []
    zu = [r for r in rows if r.flag & 1]
    zd = [r for r in rows if r.flag & 2]
    mr = [r for r in rows if r.flag & 4]

    def amb(i):
        return X[i] >= R - 1e-9
    strad = any(amb(i) for i in ups + downs + machs)
    ups = [i for i in ups if not amb(i)]
    downs = [i for i in downs if not amb(i)]
    machs = [i for i in machs if not amb(i)]
    dn = []
    if not ties and not strad:
        if S[0] > 0 or (start_tie and len(S) > 1 and S[1] > 0):
            dn = list(downs)
            exp_up = 0       # also for a start exactly on the line that leaves it upward: that crossing is AT the muzzle, not beyond it
        elif start_tie:
            dn = None
            exp_up = None
        else:
            dn = [i for i in downs if ups and i > ups[0]]
            exp_up = 1 if ups else 0
        if exp_up is not None and len(zu) != exp_up:
            out.append(f'{len(zu)} ZERO_UP row(s) but the step trace crosses the sight line upward {len(ups)} time(s) (first at {X[ups[0]] if ups else None} ft)')
        if dn is not None and len(zd) != (1 if dn else 0):
            out.append(f'{len(zd)} ZERO_DOWN row(s) but the step trace has {"a" if dn else "no"} downward crossing after the upward one (at {X[dn[0]] if dn else None} ft)')
    if len(zu) > 1 or len(zd) > 1:
        out.append(f'{len(zu)} ZERO_UP and {len(zd)} ZERO_DOWN rows: each may occur at most once')
    if not mt and not strad and len(mr) != len(machs):
        out.append(f'{len(mr)} MACH row(s) but the speed falls through the speed of sound {len(machs)} time(s) in the step trace (at {[X[i] for i in machs][:3]} ft)')

    def near(r, i, kind):
        x = r.distance >> U.Foot
        if not (min(X[i - 1], X[i]) - 1e-9 <= x <= max(X[i - 1], X[i]) + 1e-9):      # (a projectile blown back moves up-range)
            out.append(f'{kind} row at {x!r} ft does not lie in the crossing step [{X[i - 1]!r},{X[i]!r}]')
            return
        steplen = math.dist((X[i - 1], Y[i - 1]), (X[i], Y[i]))
        slope = abs(math.tan((r.angle >> U.Radian) - lar))
        if kind != 'MACH':
            if abs(r.target_drop >> U.Foot) > steplen * slope * 1.01 + 1e-9:
                out.append(f'{kind} row is {abs(r.target_drop >> U.Foot)!r} ft from the sight line, more than one step x slope = {steplen * slope!r}')
        else:
            d = M[i - 1] - M[i]
            comb = bool(r.flag & 8)
            lo = 1 - d * 1.01 - 1e-12
            hi = 1 + (d * 1.01 if comb else 0) + 1e-12
            if not lo <= r.mach <= hi:
                out.append(f'MACH row has Mach {r.mach!r}, outside [{lo!r},{hi!r}] (one step of deceleration below 1)')
    if zu and ups:
        near(zu[0], ups[0], 'ZERO_UP')
    if zd and dn:
        near(zd[0], dn[0], 'ZERO_DOWN')
    if len(mr) == len(machs):
        for r, i in zip(mr, machs):
            near(r, i, 'MACH')
    if not all(a.time < b.time for a, b in zip(rows, rows[1:])):
        out.append('rows (flagged and unflagged) are not in strictly increasing time order')
    # HitResult.zeros() returns exactly the flagged rows
    hr = pb.HitResult(shot, rows, True)
    try:
        z = hr.zeros()
        if [id(r) for r in z] != [id(r) for r in rows if r.flag & 3]:
            out.append('HitResult.zeros() does not return exactly the zero-flagged rows')
    except ArithmeticError:
        if zu or zd:
            out.append('HitResult.zeros() raised although zero-flagged rows exist')
    return out, (len(ups), len(downs), len(machs), bool(strad or ties))


def trace_cell(cell):
    import py_ballisticcalc as pb
    U = pb.Unit
    sh, bar, la, mv = cell[:4]
    opt = cell[4] if len(cell) > 4 else {}
    calc = make_calc()
    dm = pb.DragModel(0.223, pb.TableG7, U.Grain(168), U.Inch(0.308), U.Inch(1.2))
    w = pb.Weapon(U.Inch(sh), U.Inch(0))
    winds = [pb.Wind(U.MPH(25), U.Degree(20), U.Yard(150)), pb.Wind(U.MPH(25), U.Degree(200))] if opt.get('wind') else None
    shot = pb.Shot(w, pb.Ammo(dm, U.FPS(mv)), look_angle=U.Degree(la), winds=winds, cant_angle=U.Degree(opt.get('cant', 0.0)))
    if opt.get('back'):
        # the projectile ends up BEHIND the muzzle (lofted into a 60 mph head wind / fired at 100 deg): nothing that happens there is a crossing
        # beyond the muzzle
        shot = pb.Shot(w, pb.Ammo(dm, U.FPS(mv)), look_angle=U.Degree(la), relative_angle=U.Degree(87.0 if opt['back'] == 'blown' else 100.0),
                       winds=[pb.Wind(U.MPH(60), U.Degree(180))] if opt['back'] == 'blown' else None)
        calc = make_calc({'cMinimumVelocity': 0.0, 'cMinimumAltitude': -1e9, 'cMaximumDrop': -60.0})
    try:
        if bar == 'z100':
            calc.set_weapon_zero(shot, U.Yard(100))
        elif bar == 'z300':
            calc.set_weapon_zero(shot, U.Yard(300))
        elif bar == 'below':
            w.zero_elevation = U.MOA(-5)
        elif bar == 'up10':
            w.zero_elevation = U.MOA(10)
    except Exception:  # zeroing is C02's business
        return {'vac': True}
    R = 1200 * math.cos(math.radians(la))
    tr = _trace(calc, shot, R)
    lar = math.radians(la)
    X = [r.distance >> U.Foot for r in tr]
    S = [(r.height >> U.Foot) - x * math.tan(lar) for r, x in zip(tr, X)]
    M = [r.mach for r in tr]
    steps = [300.0, 21.0]
    for i in range(1, len(tr)):
        if (S[i - 1] < 0 < S[i]) or (S[i - 1] > 0 > S[i]) or (M[i - 1] > 1 > M[i]):
            steps += [(X[i - 1] + X[i]) / 2, X[i], (X[i - 1] + X[i]) / 2 / 3]
    out = []
    n = 0
    profiles = set()
    for st in steps:
        if st < 0.5:
            continue
        o, ev = check(calc, shot, la, R, st, tr, opt.get('time_step', 0.0))
        n += 1
        profiles.add(ev[:3])
        for m in o:
            if len(out) < 3:
                out.append({'msg': f'sight {sh} in, barrel {bar}, look {la}, mv {mv}, range {R:.1f} ft, record step {st!r} ft: {m}', 'key': None})
    # an event in the very iteration that ends the trajectory (a limit is crossed one step after the event is detected): the rows of the
    # incomplete trajectory must still flag the event exactly once
    if not opt:
        for i in range(1, len(tr) - 1):
            is_mach = M[i - 1] > 1 > M[i]
            is_zero = (S[i - 1] < 0 < S[i]) or (S[i - 1] > 0 > S[i])
            if not (is_mach or is_zero):
                continue
            v_i, v_n = tr[i].velocity >> U.FPS, tr[i + 1].velocity >> U.FPS
            y_i, y_n = tr[i].height >> U.Foot, tr[i + 1].height >> U.Foot
            cfgs = []
            if v_n < v_i and all((r.velocity >> U.FPS) >= (v_i + v_n) / 2 for r in tr[:i + 1]):
                cfgs.append({'cMinimumVelocity': (v_i + v_n) / 2})
            if y_n < y_i and all((r.height >> U.Foot) >= (y_i + y_n) / 2 for r in tr[:i + 1]):     # not already violated earlier (e.g. at the muzzle)
                cfgs.append({'cMaximumDrop': (y_i + y_n) / 2})
            for cfg in cfgs:
                c2 = make_calc(cfg)
                o, ev = check(c2, shot, la, R, 300.0, tr[:i + 2])
                n += 1
                for m in o:
                    if len(out) < 3:
                        out.append({'msg': f'sight {sh} in, barrel {bar}, look {la}, mv {mv}, limit {cfg} reached in the iteration that detects the event at {X[i]:.3f} ft: {m}', 'key': None})
    has_event = any(sum(p) for p in profiles)
    return {'v': out, 'n': n, 'nt': cell if has_event else None, 'states': n, 'transitions': n, 'traces': n, 'obs': sorted(profiles)[0] if profiles else None}


def side_sequences(start, barrel_rel, n):
    """plausible side sequences (True = above the sight line) for points 1..n"""
    seqs = []
    if start == 'below':
        if barrel_rel == 'above':
            for i in range(n + 1):
                for j in range(n + 1 - i):
                    seqs.append([False] * i + [True] * j + [False] * (n - i - j))
        else:
            seqs.append([False] * n)
    else:  # 'above' or 'on'
        if start == 'on' and barrel_rel != 'above':
            seqs.append([False] * n)
        else:
            for i in range(n + 1):
                seqs.append([True] * i + [False] * (n - i))
    uniq = []
    for s in seqs:
        if s not in uniq:
            uniq.append(s)
    return uniq


def filt(cell):
    start, barrel_rel, n, rs_mult = cell
    u = 0.25
    V = 1024.0
    rs = rs_mult * u
    y0 = {'below': -0.1, 'on': 0.0, 'above': 0.1}[start]
    be = {'above': 0.001, 'equal': 0.0, 'below': -0.001}[barrel_rel]
    out = []
    nseq = calls = 0
    for L in range(1, n + 1):
        for sides in side_sequences(start, barrel_rel, L):
            for mach_seq in itertools.product((1.25, 0.75), repeat=L):
                for adv in ((1.0,) * L, (0.75, 1.25) * L, (1.25, 1.0, 0.75) * L):
                    pts = [(0.0, y0, 0.0, 0.0, V, 1.0, 0.0, V / 1.5)]
                    x = 0.0
                    for i in range(L):
                        x += adv[i] * u
                        pts.append((x, 0.1 if sides[i] else -0.1, 0.0, x / V, V, 1.0, 0.0, V / mach_seq[i]))
                    res = fsm.drive_filter(pts, rs, 31, 0.0, 0.0, be)
                    calls += len(pts)
                    nseq += 1
                    # reference events
                    exp = {}
                    seen_up = start != 'below'
                    seen_down = False
                    prev_side = {'below': False, 'above': True, 'on': None}[start]
                    prev_m = None
                    ratios = [1.5] + list(mach_seq)
                    for i in range(1, L + 1):
                        side = sides[i - 1]
                        fl = 0
                        if not seen_up and side and prev_side is False:
                            fl |= 1
                            seen_up = True
                        elif seen_up and not seen_down and (not side) and (prev_side is True or (prev_side is None and False)):
                            fl |= 2
                            seen_down = True
                        if ratios[i - 1] > 1 > ratios[i] and i >= 2:
                            fl |= 4
                        # the first point has no previous Mach ratio inside the filter: the muzzle value is compared from the 2nd call on
                        prev_side = side
                        exp[i] = fl
                    # the filter sees the muzzle point as call 0: Mach crossing between point 0 and 1 is visible to it as well
                    if ratios[0] > 1 > ratios[1]:
                        exp[1] |= 4
                    got = {i: (cf & 7) for i, d, cf in res}
                    emitted = {i: d for i, d, cf in res}
                    for i in range(1, L + 1):
                        tie_case = start == 'on'
                        g, e = got[i], exp[i]
                        if tie_case:
                            g, e = g & 5, e & 5          # starting exactly on the line: leaving it at the muzzle is no upward crossing BEYOND the muzzle (no ZERO_UP); ZERO_DOWN is do-not-care
                        if g != e:
                            if len(out) < 3:
                                out.append({'msg': f'filter start {start}, barrel {barrel_rel}: sides {sides}, Mach ratios {mach_seq}, advances {adv[:L]}: call {i} flagged {got[i]} expected {exp[i]}', 'key': None})
                            break
                        if e and emitted[i] is None:
                            if len(out) < 3:
                                out.append({'msg': f'filter flagged event {e} at call {i} but emitted no row (sides {sides}, Mach {mach_seq})', 'key': None})
                            break
                        if e and emitted[i] is not None:
                            xr = emitted[i].position.x
                            if not (pts[i - 1][0] - 1e-12 <= xr <= pts[i][0] + 1e-12):
                                if len(out) < 3:
                                    out.append({'msg': f'event row at x={xr} outside the crossing step [{pts[i - 1][0]},{pts[i][0]}]', 'key': None})
                                break
    return {'v': out, 'n': nseq, 'nt': cell if nseq else None, 'states': nseq, 'transitions': calls, 'traces': nseq}


REUSE = {
    'super': ({'mv': 2750.0, 'zero': 0.1}, 600.0),                          # ends supersonic, crosses the sight line up and down
    'sub': ({'mv': 1000.0, 'zero': 0.3, 'dm': 'G1', 'bc': 0.3}, 450.0),      # launched subsonic: no Mach row ever
    'trans': ({'mv': 1150.0, 'zero': 0.3, 'dm': 'G1', 'bc': 0.15}, 450.0),   # falls through Mach 1 inside the range
    'down': ({'mv': 2750.0, 'zero': -0.2, 'look': -10.0}, 450.0),            # never crosses the sight line
    'above': ({'mv': 2750.0, 'zero': -0.05, 'sh': -1.0}, 450.0),             # starts above the sight line: one crossing, downward
    'fail': ({'mv': 1150.0, 'zero': 2.0, 'dm': 'G1', 'bc': 0.05}, 30000.0),  # far beyond reach: ends in a range error after Mach and both crossings
}


def reuse(cell):
    """ONE calculator, two extra-data requests in a row (every ordered pair of six kinds of shot, one of which ends in a range error): the
    second result - rows, flags and all - is bit-identical to the one a new calculator gives, so every event row of it is judged on its own"""
    import py_ballisticcalc as pb
    from mc.world import make_shot, traj_bits
    U = pb.Unit
    a, b = cell

    def go(calc, name):
        spec, R = REUSE[name]
        try:
            rows = calc.fire(make_shot(dict(spec)), U.Foot(R), U.Foot(R / 3), True).trajectory
            return ['ok', [int(r.flag) for r in rows], traj_bits(rows)]
        except pb.RangeError as e:
            rows = e.incomplete_trajectory
            return ['RangeError', [int(r.flag) for r in rows], traj_bits(rows)]
    calc = pb.Calculator()
    go(calc, a)
    got = go(calc, b)
    exp = go(pb.Calculator(), b)
    out = []
    if got != exp:
        out.append({'msg': f'extra-data request {b!r} on a calculator that has just computed {a!r}: event flags {got[1]} / result {got[0]}; a new calculator gives flags {exp[1]} / {exp[0]}'
                           + ('' if got[1] != exp[1] else ' (same flags, rows differ)'), 'key': None})
    return {'v': out, 'n': 3, 'states': 2, 'transitions': 2, 'traces': 1, 'nt': cell, 'obs': [sorted(set(exp[1]))]}


PARTS = {'trace': trace_cell, 'filter': filt, 'reuse': reuse}


def plan(tier):
    tr = [list(c) for c in itertools.product((2.0, 0.0, -1.0), ('z100', 'z300', 'along', 'below'), (0.0, 20.0, -20.0), (2750.0, 1150.0, 1000.0))]
    tr += [[sh, bar, la, mv, opt] for sh in (2.0, -1.0) for bar in ('z100', 'z300') for la in (0.0, 20.0) for mv in (2750.0, 1150.0)
           for opt in ({'wind': True}, {'time_step': 0.05}, {'wind': True, 'time_step': 0.003})]
    tr += [[sh, 'along', la, 200.0, {'back': b}] for sh in (2.0, 0.0, -1.0) for la in (0.0, 20.0) for b in ('blown', 'reverse')]
    # canted rifles, also beyond 90 degrees (the muzzle is then on the other side of the sight line: above it for a positive sight height)
    tr += [[sh, bar, la, 2750.0, {'cant': c}] for sh in (2.0, -1.0) for bar in ('up10', 'below', 'along') for la in (0.0, 20.0) for c in (60.0, 120.0, 180.0)]
    n = 4 if tier == 'quick' else 5
    fl = [[s, b, n, rs] for s in ('below', 'on', 'above') for b in ('above', 'equal', 'below') for rs in (2.0, 4.0)]
    ru = [[a_, b_] for a_ in REUSE for b_ in REUSE]
    return [('trace', tr), ('filter', fl), ('reuse', ru)]

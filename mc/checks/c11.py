"""C11 - what is recorded never changes what is computed.
Engine E1 (all pairs of requests per shot) + E3 (same point sequence through differently configured real filters)."""
import itertools

from mc import fsm
from mc.world import make_shot, make_calc

PID = 'C11'
# thread bodies (defined with engine E4, mc/checks/c10_sched.py) that exercise this property's code; explored after the parts below
SCHED_SETS = [('firex||fire', 'call')]
LEVEL = 'model_checking'
ENGINE = 'E1+E3'
TECHNIQUE = 'exhaustive enumeration of all pairs of (range, step, time step, extra) requests per shot on the real solver, rows matched by distance; plus all point sequences up to depth n through real record filters that differ only in recording parameters'
RULE = ('requests = range {150,300,412.5 ft} x step {R,10,37.5,75,150,0.3 ft} x time step {0,.01,.1,2e-5 s} x {plain,extra} = 144 per shot; pair cells = every '
        'unordered pair of requests of a shot (grouped in blocks), shots {multi-wind, transonic look 10, arc 30 deg, tail wind} + two long nearly level shots with ranges 800-1500 yd (gravity drop > 30 ft inside the shorter range); rows matched by '
        'distance (1e-12 rel) must agree in every column (1e-9 rel); for equal (R,s,dt) every plain row occurs in the extra result and extra-only rows carry an event flag; '
        'filter cells = advance sequences <= n over {0.75,1,1.25}u with a sight-line crossing and a Mach crossing, run through 12 filter configurations; '
        'non-trivial = a pair of requests that share at least one recording distance other than the muzzle')
ASSUMPTIONS = ['"to float rounding" = 1e-9 relative + 1e-12 absolute (the pinned tree is bit-identical)', 'grid values only']
LEVEL_TEXT = ('Every pair of requests in the declared space is compared on the real solver (differential oracle, no expected values), and the record filter is '
              'additionally driven through all short step sequences in all recording configurations.')

SHOTS = {
    'multiwind': {'zero': 0.1, 'twist': 12.0, 'wind': [[10, 90, 60], [10, 180, 200]]},
    # every segment ends at a finite distance and the ranges end inside each of them and beyond the last (anything that prepares the winds from
    # the requested range shows up)
    'finitewinds': {'zero': 0.1, 'wind': [[10, 90, 40], [12, 180, 90], [8, 270, 180]], '_ranges': (100.0, 200.0, 412.5, 700.0), '_steps': ('R', 10.0, 50.0, 100.0)},
    # recording steps far below one integration step (0.25 ft): several rows have to be produced from one step
    'finestep': {'zero': 0.2, 'wind': 'cross', '_ranges': (10.0, 20.0, 40.0), '_steps': ('R', 0.05, 0.1, 5.0), '_tsteps': (0.0,)},
    'transonic': {'zero': 0.5, 'twist': 12.0, 'dm': 'G1', 'bc': 0.1, 'mv': 1250.0, 'look': 10.0},
    'arc30': {'zero': 30.0, 'mv': 1500.0},
    'arc70': {'zero': 70.0, 'mv': 1500.0, '_ranges': (300.0, 600.0, 900.0), '_steps': ('R', 100.0, 300.0), '_tsteps': (0.0, 0.5)},      # mortar-like: barrel beyond 60 deg
    'tail': {'wind': 'tail', 'zero': 0.2},
    'tailslow': {'wind': 'tail60', 'mv': 900.0, 'zero': 1.0},      # ground advance per step 10 % above the air-relative step
    'tailarc': {'wind': [[15, 0, None]], 'mv': 1200.0, 'zero': 30.0, '_ranges': (1500.0, 3000.0), '_steps': ('R', 100.0, 500.0), '_tsteps': (0.0, 0.25)},
    # long, nearly level: the bullet falls through the 30-ft atmosphere shortcut well inside the shorter ranges, and the ranges straddle
    # range x tan(elevation) = 30 ft, so anything decided from the requested range alone shows up
    'flat_long': {'zero': 0.4, '_ranges': (3600.0, 4200.0, 4500.0), '_steps': ('R', 300.0, 900.0), '_tsteps': (0.0, 0.5)},
    'down_long': {'zero': -0.3, 'sh': 0.0, '_ranges': (2400.0, 3300.0), '_steps': ('R', 300.0), '_tsteps': (0.0,)},
}
RANGES = (150.0, 300.0, 412.5)
TSTEPS = (0.0, 0.01, 0.1, 2e-5)     # the last one is shorter than one integration step (about 9e-5 s at the muzzle)
NBLOCKS = 4
FAR = 3.0e6          # ft: beyond the reach of anything


def requests(name=None):
    out = []
    spec = SHOTS.get(name, {})
    # a range far beyond reach comes FIRST (round 10): the call ends in a range error whose rows (all but the terminal one) are rows "reported at
    # a given distance" like any others - and every later request of the cell runs on a calculator that has just been through that failure
    far_step = [x for x in spec.get('_steps', ('R', 37.5)) if x != 'R'][0]
    if far_step >= 1.0:
        out += [(FAR, far_step, 0.0, False), (FAR, far_step, 0.0, True)]
    for R in spec.get('_ranges', RANGES):
        for st in [R if x == 'R' else x for x in spec.get('_steps', ('R', 10.0, 37.5, 75.0, 150.0, 0.3))]:
            for ts in spec.get('_tsteps', TSTEPS):
                for ex in (False, True):
                    out.append((R, st, ts, ex))
    # no request twice (step 'R' may coincide with an explicit step): a second computation of the same request would overwrite the first answer,
    # and it is the FIRST computation after the failing one that matters (round 10)
    return list(dict.fromkeys(out))


def cols(r):
    return (r.time, r.distance.raw_value, r.velocity.raw_value, r.mach, r.height.raw_value, r.target_drop.raw_value, r.drop_adj.raw_value,
            r.windage.raw_value, r.windage_adj.raw_value, r.look_distance.raw_value, r.angle.raw_value, r.density_factor, r.drag,
            r.energy.raw_value, r.ogw.raw_value)


NAMES = ('time', 'distance', 'velocity', 'mach', 'height', 'target_drop', 'drop_adj', 'windage', 'windage_adj', 'look_distance', 'angle',
         'density_factor', 'drag', 'energy', 'ogw')


def same(a, b):
    for i, (x, y) in enumerate(zip(a, b)):
        if x != y and abs(x - y) > 1e-9 * max(abs(x), abs(y)) + 1e-12:
            return i
    return None


def match_rows(r1, r2):
    """pairs of rows with the same distance (1e-12 relative); both lists sorted by distance"""
    i = j = 0
    out = []
    while i < len(r1) and j < len(r2):
        a, b = r1[i][1], r2[j][1]
        if abs(a - b) <= 1e-12 * max(abs(a), abs(b)):
            out.append((r1[i], r2[j]))
            i += 1
            j += 1
        elif a < b:
            i += 1
        else:
            j += 1
    return out


def pairs(cell):
    import py_ballisticcalc as pb
    U = pb.Unit
    name, ba, bb = cell
    shot = make_shot({k: v for k, v in SHOTS[name].items() if not k.startswith('_')})
    calc = make_calc()
    reqs = requests(name)
    blocks = [reqs[k::NBLOCKS] for k in range(NBLOCKS)]
    need = blocks[ba] + (blocks[bb] if bb != ba else [])
    res = {}
    flags = {}
    for q in need:
        R, st, ts, ex = q
        try:
            rows = calc.fire(shot, U.Foot(R), U.Foot(st), ex, ts).trajectory
        except pb.RangeError as e:
            if R != FAR:
                raise
            rows = e.incomplete_trajectory[:-1]       # the terminal row is where the limit was reached, not a requested distance
        res[q] = [cols(r) for r in rows]
        flags[q] = [int(r.flag) for r in rows]
    out = []
    n = nt = 0
    if ba == bb:
        pr = itertools.combinations(blocks[ba], 2)
    else:
        pr = itertools.product(blocks[ba], blocks[bb])
    for q1, q2 in pr:
        n += 1
        m = match_rows(res[q1], res[q2])
        if len(m) > 1:
            nt += 1
        for a, b in m:
            k = same(a, b)
            if k is not None and len(out) < 3:
                out.append({'msg': f'{name}: row at {a[1] / 12!r} ft differs between request (R,step,dt,extra)={q1} and {q2}: {NAMES[k]} {a[k]!r} vs {b[k]!r}', 'key': None})
    # plain subset of extra for equal (R, s, dt)
    for q in need:
        R, st, ts, ex = q
        if ex or (R, st, ts, True) not in res:
            continue
        p, e = res[q], res[(R, st, ts, True)]
        ef = flags[(R, st, ts, True)]
        m = match_rows(p, e)
        n += 1
        if len(m) != len(p) or any(same(a, b) is not None for a, b in m):
            if len(out) < 3:
                out.append({'msg': f'{name} request {q}: not every plain row occurs in the extra-data result ({len(m)} of {len(p)} matched)', 'key': None})
        matched = {id(b) for a, b in m}
        for row, fl in zip(e, ef):
            if id(row) not in matched and not fl & ~8:       # any flag of the library's TrajFlag other than RANGE marks an event (ZERO_UP/DOWN, MACH, APEX)
                if len(out) < 3:
                    out.append({'msg': f'{name} request {q}: extra-data result has an additional row at {row[1] / 12!r} ft that carries no event flag (flag {fl})', 'key': None})
                break
    return {'v': out, 'n': n, 'nt': [name, ba, bb] if nt else None, 'states': len(need), 'transitions': n, 'traces': nt, 'obs': [name, nt > 0]}


def filt(cell):
    """E3: one synthetic point sequence through 12 real filters that differ only in (range step, time step, flags)"""
    from py_ballisticcalc import Vector
    prefix, depth = cell
    F = fsm.get_filter_class()
    u = 0.25
    V = 1024.0
    out = []
    n = calls = 0
    cfgs = [(rs, ts, fl) for rs in (2 * u, 2.5 * u, 4 * u) for ts in (0.0, 2.0 ** -12) for fl in (8, 31)]
    for L in range(max(len(prefix), 3), depth + 1):
        for tail in itertools.product((0.75, 1.0, 1.25), repeat=L - len(prefix)):
            dxs = list(prefix) + list(tail)
            pts = []
            x = 0.0
            for i in range(L + 1):
                if i:
                    x += dxs[i - 1] * u
                # sight-line crossing upward after 1/3, downward after 2/3 of the sequence; Mach ratio falls through 1 in the middle
                y = -0.1 if (i <= L // 3 or i > 2 * L // 3) else 0.1
                v = V * (1.25 - 0.5 * i / L)
                pts.append((x, y, 0.0, x / V, v, 1.0, 0.0, V))
            results = []
            for rs, ts, fl in cfgs:
                rows = [(d.position.x, d.time, d.position.y, d.velocity.x, d.mach) for i, d, cf in fsm.drive_filter(pts, rs, fl, ts) if d is not None]
                calls += len(pts)
                results.append(sorted(rows))
            n += 1
            for (c1, r1), (c2, r2) in itertools.combinations(zip(cfgs, results), 2):
                i = j = 0
                while i < len(r1) and j < len(r2):
                    a, b = r1[i], r2[j]
                    if abs(a[0] - b[0]) <= 1e-12:
                        if any(abs(p - q) > 1e-9 * max(abs(p), abs(q)) + 1e-12 for p, q in zip(a, b)) and len(out) < 3:
                            out.append({'msg': f'filters {c1} and {c2} fed the same points (advances {dxs}) report different rows at x={a[0]}: {a} vs {b}', 'key': None})
                        i += 1
                        j += 1
                    elif a[0] < b[0]:
                        i += 1
                    else:
                        j += 1
    return {'v': out, 'n': n, 'nt': cell if n else None, 'states': n * len(cfgs), 'transitions': calls, 'traces': n * len(cfgs)}


PARTS = {'pairs': pairs, 'filter': filt}


def plan(tier):
    shots = list(SHOTS) if tier == 'thorough' else ['multiwind', 'finitewinds', 'finestep', 'arc70', 'transonic', 'tail', 'tailslow', 'tailarc', 'flat_long', 'down_long']
    pr = [[s, a, b] for s in shots for a in range(NBLOCKS) for b in range(a, NBLOCKS)]
    depth = 6 if tier == 'quick' else 8
    fl = [[list(p), depth] for p in itertools.product((0.75, 1.0, 1.25), repeat=3)]
    return [('pairs', pr), ('filter', fl)]

"""C12 - wind acts by segment, in order of distance, symmetrically and causally.
Engine E1 over all ordered wind lists up to length 3 + E3 on the real _WindSock (+ ODE reference for segment semantics)."""
import itertools
import math

from mc import fsm
from mc.core import bits
from mc.world import make_calc, BASE

PID = 'C12'
# thread bodies (defined with engine E4, mc/checks/c10_sched.py) that exercise this property's code; explored after the parts below
SCHED_SETS = [('fireshot||fireshot', 'line')]
LEVEL = 'model_checking'
ENGINE = 'E1+E3'
TECHNIQUE = 'exhaustive enumeration of all ordered wind lists of length 0..3 over a 16-segment alphabet on the real solver with relational oracles (permutation, causality, mirror, zero wind; bitwise), all query sequences through the real wind cursor, and an independent ODE reference for segment semantics'
RULE = ('segment alphabet = {zero speed, 20 mph from 90, 0, 225 deg} x until {0, 20 yd, 60 yd, none} (16 segments); list cells = every multiset of 0..3 '
        'segments (quick: 0..2 plus a slice of 3); each cell fires every distinct ordering of the multiset, its mirror image, its extension by a zero-speed '
        'segment and every truncation to a sorted prefix, to 100 yd with 5-yd rows; sock cells = every sorted list x every increasing query sequence over '
        '{0,19,20,21,59,60,61,100} yd through the real _WindSock; ode cells = every ordered two-segment list against the RK4 reference; edit cells = lists edited in place after the shot was built (until-distances swapped, segment appended, '
        'list re-assigned, speed zeroed) and fired again vs a shot built from the edited values; zeroing cells = every multiset of 1..2 (thorough 3) segments: a slow projectile zeroed at 100 yd under the list, fired back (C02 allowance), every ordering and the mirror image zeroed again (bitwise); '
        'non-trivial = list with a non-zero wind and at least two segments')
ASSUMPTIONS = ['bitwise comparisons are made between runs in the same process', 'a zero-length segment (duplicate until-distance) may be held for at most one query by the wind cursor (lenient)',
               'ODE clause uses the C01 oracle e <= 4 Delta* + floor']
LEVEL_TEXT = ('All ordered lists up to the bound are enumerated and related to each other by oracles that need no expected values; the wind cursor state '
              'machine is driven through all query sequences of the alphabet.')

DIRS = ('Z', 90, 0, 225)
UNTILS = (0, 20, 60, None)      # 0: a segment that ends at the muzzle (acts nowhere)
SEGS = [(d, u) for d in DIRS for u in UNTILS]


def W(s, mirror=False):
    import py_ballisticcalc as pb
    U = pb.Unit
    d, u = s
    if d == 'Z':
        v, ang = U.MPH(0), U.Degree(-77 if mirror else 77)
    else:
        v, ang = U.MPH(20), U.Degree(-d if mirror else d)
    return pb.Wind(v, ang, U.Yard(u)) if u is not None else pb.Wind(v, ang)


def _fire(calc, segs, mirror=False, extra_zero=False):
    import py_ballisticcalc as pb
    U = pb.Unit
    winds = [W(tuple(s), mirror) for s in segs]
    if extra_zero:
        winds.append(pb.Wind(U.MPH(0), U.Degree(33)))
    dm = pb.DragModel(0.223, pb.TableG7)
    shot = pb.Shot(pb.Weapon(U.Inch(2), U.Inch(0), U.MOA(5)), pb.Ammo(dm, U.FPS(2750)), winds=winds)
    return calc.fire(shot, U.Yard(100), U.Yard(5)).trajectory


def key(r, mirror=False):
    s = -1.0 if mirror else 1.0
    return (bits(r.time), bits(r.distance.raw_value), bits(r.velocity.raw_value), bits(r.mach), bits(r.height.raw_value),
            bits(s * r.windage.raw_value + 0.0), bits(s * r.windage_adj.raw_value + 0.0), bits(r.angle.raw_value), bits(r.energy.raw_value),
            bits(r.drag), bits(r.density_factor), bits(r.target_drop.raw_value), bits(r.drop_adj.raw_value), int(r.flag))


def usort(segs):
    return sorted(segs, key=lambda s: (s[1] if s[1] is not None else 1e9))  # stable, like the library's documented order


def lists(cell):
    calc = make_calc()
    base = [tuple(s) for s in cell]
    out = []
    n = 0
    ref_rows = _fire(calc, base)
    ref = [key(r) for r in ref_rows]
    n += 1
    sb = usort(base)
    # (1) orderings that keep the relative order of equal until-distances
    for p in set(itertools.permutations(base)):
        if list(p) == base or usort(list(p)) != sb:
            continue
        n += 1
        if [key(r) for r in _fire(calc, list(p))] != ref:
            out.append({'msg': f'winds {list(p)} and {base} (same segments, different order given) give different trajectories', 'key': None})
    # (2) zero-speed segments / empty list == no wind; extension by a zero-speed segment to infinity changes nothing
    if all(s[0] == 'Z' for s in base):
        n += 1
        import py_ballisticcalc as pb
        U = pb.Unit
        shot = pb.Shot(pb.Weapon(U.Inch(2), U.Inch(0), U.MOA(5)), pb.Ammo(pb.DragModel(0.223, pb.TableG7), U.FPS(2750)))
        nowind = [key(r) for r in calc.fire(shot, U.Yard(100), U.Yard(5)).trajectory]
        if nowind != ref:
            out.append({'msg': f'zero-speed wind list {base} differs from a shot without winds', 'key': None})
    n += 1
    if [key(r) for r in _fire(calc, base, extra_zero=True)] != ref:
        out.append({'msg': f'adding a zero-speed segment beyond the last one changes the trajectory of {base} (something blows beyond the last until-distance)', 'key': None})
    # (3) causality: truncating the sorted list after k segments leaves every row up to that until-distance unchanged
    for k in range(1, len(sb)):
        D = sb[k - 1][1]
        if D is None:
            continue
        n += 1
        tr = _fire(calc, sb[:k])
        for r1, r2 in zip(ref_rows, tr):
            if r1.distance.raw_value <= D * 36 + 1e-9 and key(r1) != key(r2):
                out.append({'msg': f'rows up to {D} yd differ between winds {base} and the truncated list {sb[:k]} (row at {r1.distance.raw_value / 36} yd): '
                                   f'segments beginning beyond {D} yd influenced earlier rows', 'key': None})
                break
        # ... and the segment after D really takes over (otherwise "up to its own until-distance" is violated the other way)
    # (4) mirror
    n += 1
    m = [key(r, True) for r in _fire(calc, base, mirror=True)]
    if m != ref:
        i = next(i for i, (a, b) in enumerate(zip(m, ref)) if a != b)
        out.append({'msg': f'mirroring all wind directions of {base} does not exactly negate windage and keep the rest (first difference in row {i})', 'key': None})
    nontrivial = len(base) >= 2 and any(s[0] != 'Z' for s in base)
    return {'v': out[:4], 'n': n, 'nt': cell if nontrivial else None, 'states': n, 'transitions': n, 'traces': n,
            'obs': [len(base), len({s[1] for s in base}) < len(base)]}


def sense(cell):
    """(5) from the left deflects right; head and tail wind move drop and time of flight in opposite senses"""
    import py_ballisticcalc as pb
    U = pb.Unit
    mph, rng = cell
    calc = make_calc()
    dm = pb.DragModel(0.223, pb.TableG7)

    def fire(winds):
        shot = pb.Shot(pb.Weapon(U.Inch(2), U.Inch(0), U.MOA(5)), pb.Ammo(dm, U.FPS(2750)), winds=winds)
        return calc.fire(shot, U.Yard(rng), U.Yard(rng)).trajectory[-1]
    none = fire([])
    left = fire([pb.Wind(U.MPH(mph), U.Degree(90))])
    right = fire([pb.Wind(U.MPH(mph), U.Degree(270))])
    tail = fire([pb.Wind(U.MPH(mph), U.Degree(0))])
    head = fire([pb.Wind(U.MPH(mph), U.Degree(180))])
    clock3 = fire([pb.Wind(U.MPH(mph), U.OClock(3))])
    out = []
    if not left.windage.raw_value > 0:
        out.append({'msg': f'{mph} mph wind from the left (90 deg) gives windage {left.windage >> U.Inch} in (not to the right)', 'key': None})
    if not right.windage.raw_value < 0:
        out.append({'msg': f'{mph} mph wind from the right (270 deg) gives windage {right.windage >> U.Inch} in (not to the left)', 'key': None})
    if abs(clock3.windage.raw_value - left.windage.raw_value) > 1e-9 * abs(left.windage.raw_value):
        out.append({'msg': 'wind from 3 o\'clock differs from wind from 90 degrees', 'key': None})
    dh_t, dh_h = tail.height.raw_value - none.height.raw_value, head.height.raw_value - none.height.raw_value
    dt_t, dt_h = tail.time - none.time, head.time - none.time
    if not (dh_t > 0 > dh_h and dt_t < 0 < dt_h):
        out.append({'msg': f'{mph} mph at {rng} yd: tail/head wind change height by {dh_t}/{dh_h} in and time by {dt_t}/{dt_h} s; expected tail wind = less drop and shorter flight, head wind the opposite', 'key': None})
    return {'v': out, 'n': 6, 'nt': cell, 'states': 6, 'transitions': 6, 'traces': 6}


def sock(cell):
    """E3: real _WindSock on a sorted list x every increasing query sequence over the alphabet"""
    import py_ballisticcalc as pb
    U = pb.Unit
    segs = usort([tuple(s) for s in cell])
    WS = fsm.get_windsock_class()
    Q = (0, 19, 20, 21, 59, 60, 61, 100)
    out = []
    n = calls = 0
    dup = len({s[1] for s in segs}) < len(segs)

    def ref_vec(x_ft):
        for s in segs:
            until = s[1] * 3.0 if s[1] is not None else 1e8
            if until > x_ft:
                return tuple(W(s).vector)
        return (0.0, 0.0, 0.0)

    for L in range(1, len(Q) + 1):
        for qs in itertools.combinations(Q, L):
            winds = tuple(W(s) for s in segs)
            ws = WS(winds)
            v = ws.current_vector()
            lag = 0
            n += 1
            prev_x = None
            for q in qs:
                x = q * 3.0
                # protocol of _integrate: only ask when x >= next_range; at most one boundary per query
                crossed = len({s[1] for s in segs if s[1] is not None and (prev_x is None or s[1] * 3.0 > prev_x) and s[1] * 3.0 <= x})
                if crossed > 1:
                    break   # outside the alphabet (a step never spans two distinct boundaries)
                if x >= ws.next_range:
                    v = ws.vector_for_range(x)
                    calls += 1
                exp = ref_vec(x)
                got = (v.x, v.y, v.z)
                if got != exp and dup:
                    # zero-length segments (duplicate until-distances) may each be held for one query (lenient reading)
                    zero_len = max(sum(1 for s in segs if s[1] == u) for u in {s[1] for s in segs}) - 1
                    for _ in range(zero_len):
                        if got == exp:
                            break
                        if x >= ws.next_range:
                            v = ws.vector_for_range(x)
                            calls += 1
                        got = (v.x, v.y, v.z)
                if got != exp:
                    if len(out) < 3:
                        out.append({'msg': f'wind cursor over {segs} queried at {qs} yd: at {q} yd it reports {got}, the segment in force is {exp}', 'key': None})
                    break
                prev_x = x
    return {'v': out, 'n': n, 'nt': cell if len(segs) >= 2 else None, 'states': n, 'transitions': calls, 'traces': n}


def ode_part(cell):
    """(6) segment semantics against the independent ODE reference (C01 oracle): distinguishes 'each from the previous end up to
    its own until' from any off-by-one that still satisfies the relational oracles"""
    from mc.checks import c01
    spec = []
    for d, u in cell:
        spec.append([0 if d == 'Z' else 20, 77 if d == 'Z' else d, u])
    res = c01.ladder({'wind': spec, 'R': 300.0})
    for v in res.get('v', []):
        v['msg'] = 'two-segment list vs point-mass reference: ' + v['msg']
    # the until-distances are DOWN-RANGE (horizontal) distances - also on a sight line inclined by 40 deg, where slant and horizontal differ by 30 %
    if any(d != 'Z' for d, u in cell) and any(u for d, u in cell):
        res2 = c01.ladder({'wind': spec, 'R': 300.0, 'look': 40.0})
        for v in res2.get('v', []):
            v['msg'] = 'two-segment list on a 40-deg sight line vs point-mass reference: ' + v['msg']
        res['v'] = list(res.get('v', [])) + list(res2.get('v', []))
        res['n'] = res.get('n', 1) + res2.get('n', 1)
    res['states'] = res['transitions'] = res['traces'] = res.get('n', 1)
    if res.get('nt') is not None:
        res['nt'] = cell
    return res


def edit(cell):
    """the order in force is the order of the until-distances AT THE TIME OF THE CALL: editing a wind or the list after the shot was built,
    then firing, equals firing a shot built from the edited values"""
    import py_ballisticcalc as pb
    U = pb.Unit
    segs, kind = [tuple(s) for s in cell[0]], cell[1]
    calc = make_calc()
    dm = pb.DragModel(0.223, pb.TableG7)

    def shot_of(winds):
        return pb.Shot(pb.Weapon(U.Inch(2), U.Inch(0), U.MOA(5)), pb.Ammo(dm, U.FPS(2750)), winds=winds)
    winds = [W(s) for s in segs]
    shot = shot_of(winds)
    calc.fire(shot, U.Yard(100), U.Yard(5))
    if kind == 'swap_until':
        winds[0].until_distance, winds[-1].until_distance = winds[-1].until_distance, winds[0].until_distance
        edited = [(segs[0][0], segs[-1][1])] + list(segs[1:-1]) + ([(segs[-1][0], segs[0][1])] if len(segs) > 1 else [])
    elif kind == 'append':
        winds.append(W((225, 10)))
        edited = list(segs) + [(225, 10)]
    elif kind == 'assign':
        shot.winds = [W((0, 60)), W((90, 20))]
        edited = [(0, 60), (90, 20)]
    elif kind.startswith('redisplay'):
        # conversions only change the unit a quantity displays in: the order of the segments is the order of the LENGTHS
        units = {'redisplay_first_inch': (0, 'Inch'), 'redisplay_last_mile': (-1, 'Mile'), 'redisplay_first_km': (0, 'Kilometer')}[kind]
        winds[units[0]].until_distance << pb.Unit[units[1]]
        winds[units[0]].velocity << pb.Unit.KMH
        winds[units[0]].direction_from << pb.Unit.Mil
        edited = list(segs)
    else:   # speed of the first wind set to zero in place
        winds[0].velocity = U.MPH(0)
        edited = [('Z', segs[0][1])] + list(segs[1:])
    got = [key(r) for r in calc.fire(shot, U.Yard(100), U.Yard(5)).trajectory]
    if kind == 'zero_speed':
        # direction of a zero-speed wind is irrelevant: compare with the library-independent expectation via a fresh shot with MPH(0) and the same direction
        fresh = [W(s) for s in segs]
        fresh[0].velocity = U.MPH(0)
        exp = [key(r) for r in calc.fire(shot_of(fresh), U.Yard(100), U.Yard(5)).trajectory]
        fresh2 = [pb.Wind(U.MPH(0), w.direction_from, w.until_distance) if i == 0 else w for i, w in enumerate([W(s) for s in segs])]
        exp2 = [key(r) for r in make_calc().fire(shot_of(fresh2), U.Yard(100), U.Yard(5)).trajectory]
        if exp != exp2:
            exp = exp2
    else:
        exp = [key(r) for r in make_calc().fire(shot_of([W(s) for s in edited]), U.Yard(100), U.Yard(5)).trajectory]
    out = []
    if got != exp:
        out.append({'msg': f'winds {segs} edited after the shot was built ({kind}) and fired again: result differs from a shot built from the edited winds {edited}', 'key': None})
    return {'v': out, 'n': 3, 'states': 3, 'transitions': 3, 'traces': 1, 'nt': cell}


def default_isolation(cell):
    """an empty list / no list is no wind - for EVERY shot, whatever was done to the default wind of another shot"""
    import py_ballisticcalc as pb
    U = pb.Unit
    how, mph = cell
    calc = make_calc()
    dm = pb.DragModel(0.223, pb.TableG7)

    def windless(kind):
        w, a = pb.Weapon(U.Inch(2), U.Inch(0), U.MOA(5)), pb.Ammo(dm, U.FPS(2750))
        return {'none': lambda: pb.Shot(w, a), 'empty': lambda: pb.Shot(w, a, winds=[]), 'setter': lambda: _set(pb.Shot(w, a, winds=[W((90, None))]))}[kind]()

    def _set(shot):
        shot.winds = None
        return shot
    ref = [key(r) for r in calc.fire(windless('none'), U.Yard(100), U.Yard(5)).trajectory]
    before = windless('none')
    a = windless(how)
    wa = a.winds[0]
    wa.velocity = U.MPH(mph)
    wa.direction_from = U.Degree(90)
    out = []
    for name, shot in (('created before the edit', before), ('created after the edit (no winds)', windless('none')), ('created after the edit (empty list)', windless('empty')),
                       ('whose winds were reset with the setter', windless('setter'))):
        if [key(r) for r in calc.fire(shot, U.Yard(100), U.Yard(5)).trajectory] != ref:
            out.append({'msg': f'the default wind of one windless shot ({how}) was set to {mph} mph; another windless shot {name} now flies in wind', 'key': None})
    return {'v': out, 'n': 5, 'states': 5, 'transitions': 5, 'traces': 1, 'nt': cell}


def zeroing(cell):
    """the segments act in EVERY integration, also in the repeated passes of a zero search: the elevation found under a wind list must hit the aim
    point when fired under that list (slow projectile, so that a pass flown in the wrong segment misses by 10-100 x the allowance), must not depend
    on the order the segments are given in, nor on the mirror image of the directions"""
    import py_ballisticcalc as pb
    U = pb.Unit
    base = [tuple(s) for s in cell]
    calc = make_calc()
    ZD = 100.0

    def shot_for(segs, mirror=False):
        return pb.Shot(pb.Weapon(U.Inch(2), U.Inch(0)), pb.Ammo(pb.DragModel(0.1, pb.TableG1), U.FPS(900)), winds=[W(tuple(x), mirror) for x in segs])
    out = []
    n = 0
    sh = shot_for(base)
    z = calc.set_weapon_zero(sh, U.Yard(ZD))
    n += 1
    rows = calc.fire(sh, U.Yard(ZD), U.Yard(ZD)).trajectory
    at = [r for r in rows if abs((r.distance >> U.Yard) - ZD) < 1e-9]
    if not at:
        out.append({'msg': f'winds {base}: trajectory fired after zeroing has no row at {ZD} yd', 'key': None})
    else:
        p_ = at[-1]
        miss = abs(p_.target_drop >> U.Foot)
        bound = 5e-6 + 0.5 * abs(math.tan(p_.angle >> U.Radian)) + 1e-9     # the C02 allowance: accuracy + one maximum step x slope
        if miss > bound:
            out.append({'msg': f'winds {base}: zeroed at {ZD} yd under these winds, but the trajectory fired under the same winds is {miss * 12:.4f} in from the '
                               f'sight line there (allowed {bound * 12:.4f} in): the zero search did not fly through the segments the way fire does', 'key': None})
    sb = usort(base)
    for p in set(itertools.permutations(base)):
        if list(p) == base or usort(list(p)) != sb:
            continue
        n += 1
        z2 = calc.set_weapon_zero(shot_for(list(p)), U.Yard(ZD))
        if bits(z2.raw_value) != bits(z.raw_value):
            out.append({'msg': f'zero at {ZD} yd differs between winds {list(p)} and {base} (same segments, different order given): {z2 >> U.MOA!r} vs {z >> U.MOA!r} MOA', 'key': None})
    n += 1
    zm = calc.set_weapon_zero(shot_for(base, True), U.Yard(ZD))
    if bits(zm.raw_value) != bits(z.raw_value):
        out.append({'msg': f'zero at {ZD} yd changes when all wind directions of {base} are mirrored left-right: {zm >> U.MOA!r} vs {z >> U.MOA!r} MOA', 'key': None})
    nontrivial = len(base) >= 2 and any(x[0] != 'Z' for x in base)
    return {'v': out[:3], 'n': n, 'states': n, 'transitions': n, 'traces': n, 'nt': cell if nontrivial else None}


PARTS = {'lists': lists, 'sense': sense, 'sock': sock, 'ode': ode_part, 'edit': edit, 'default_isolation': default_isolation, 'zeroing': zeroing}


def multisets(k):
    return [list(map(list, c)) for c in itertools.combinations_with_replacement(SEGS, k)]


def plan(tier):
    ls = [[]] + multisets(1) + multisets(2)
    m3 = multisets(3)
    ls += m3 if tier == 'thorough' else m3[::6]
    se = [[m, r] for m in (5, 20, 60) for r in (100, 400)]
    sk = [[]] + multisets(1) + multisets(2) + (m3 if tier == 'thorough' else m3[::4])
    od = [[list(a), list(b)] for a in SEGS for b in SEGS if not (a[0] == 'Z' and b[0] == 'Z')]
    if tier == 'quick':
        od = [c for c in od if c[0][1] != c[1][1]]
    ed = [[m, k] for m in multisets(2) + (m3[::9] if tier == 'quick' else m3) for k in ('swap_until', 'append', 'assign', 'zero_speed', 'redisplay_first_inch', 'redisplay_last_mile', 'redisplay_first_km')
          if any(x[0] != 'Z' for x in m)]
    di = [[how, mph] for how in ('none', 'empty', 'setter') for mph in (20, 5)]
    zr = multisets(1) + multisets(2) + (m3 if tier == 'thorough' else m3[::12])
    return [('lists', ls), ('sense', se), ('sock', sk), ('ode', od), ('edit', ed), ('default_isolation', di), ('zeroing', zr)]

"""C18 - configuration is honoured, local to its calculator, and parsed faithfully.
Engine E2 (global-step histories to closure, dict model) + E1 (all 2^8 setting subsets; all names/aliases x casings x channels)."""
import itertools
import math
import os
import shutil
import tempfile

from mc.core import bits
from mc.world import make_shot

PID = 'C18'
# thread bodies (defined with engine E4, mc/checks/c10_sched.py) that exercise this property's code; explored after the parts below
SCHED_SETS = [('construct||construct', 'line')]
LEVEL = 'model_checking'
ENGINE = 'E2+E1'
TECHNIQUE = 'exhaustive enumeration of all 2^8 setting subsets with per-setting observables, explicit-state BFS to closure over set/reset/create/fire histories of the global default step against a dictionary model, and all unit names and aliases x letter casings x blanks x channels (parser, setter, basicConfig, generated toml, value strings)'
RULE = ('subset cells = every subset of the 8 solver settings, each overridden by one non-default value, on a calculator created between two default calculators; '
        'observables: first-step advance (step), vacuum drop (gravity), reason/location of the range error against the first violated point of the same run with relaxed '
        'limits (three limits), ZeroFindingError count/error or achieved accuracy (accuracy, iteration cap); history cells: BFS over {set_global 0.25 ft, set_global 1 m, '
        'set_global 0, set_global -1, reset_globals, create calculator, create with override, fire each live calculator} with at most 3 live calculators, to closure; '
        'advance cells: step traces of 12 shots x 3 step settings, every step\'s air-relative advance <= maximum step; name cells: every Unit member name and every alias '
        'taken literally from the tree under test x {lower, UPPER, Title, sWAP, all 2^n casings for <= 10 letters} x 4 blank paddings x 5 numeric prefixes x channels; '
        'non-trivial = subset with >= 1 override / name with >= 2 distinct casings')
ASSUMPTIONS = ['alias table is taken literally from the tree under test; entries containing inner blanks are not sent through value strings (blanks are removed there by documentation)',
               'chart_resolution has no observable effect in the pure-Python solver (seven effective settings)',
               'known finding slow-step: below 10 ft/s air speed one step can advance further than the maximum step (KNOWN_FINDINGS.txt)']
LEVEL_TEXT = ('The global default step and PreferredUnits are process-global mutable state; their set/reset/create histories are explored to closure against a dictionary model, '
              'and the name parser is exercised on its complete finite alphabet (every name, every casing class).')

BUDGETS = {'history': 1500}      # one cell runs a whole BFS to closure
OVER = {'max_calc_step_size_feet': 0.2, 'chart_resolution': 0.7, 'cZeroFindingAccuracy': 0.01, 'cMinimumVelocity': 2000.0, 'cMaximumDrop': -1.0,
        'cMaxIterations': 2, 'cGravityConstant': -10.0, 'cMinimumAltitude': -0.5}
DEFAULTS = {'max_calc_step_size_feet': 0.5, 'chart_resolution': 0.2, 'cZeroFindingAccuracy': 0.000005, 'cMinimumVelocity': 50.0, 'cMaximumDrop': -15000.0,
            'cMaxIterations': 20, 'cGravityConstant': -32.17405, 'cMinimumAltitude': -1410.748}
KEYS = list(OVER)
RELAX = {'cMinimumVelocity': 0.0, 'cMaximumDrop': -1e9, 'cMinimumAltitude': -1e9}


def _trace(calc, shot, R):
    import py_ballisticcalc as pb
    U = pb.Unit
    try:
        return calc.fire(shot, U.Foot(R), U.Foot(R * 10), False, 1e-12).trajectory, None
    except pb.RangeError as e:
        return e.incomplete_trajectory, e


def observe(calc, cfg):
    """measure what each setting is supposed to govern and compare with the configuration dict cfg (defaults merged with overrides)"""
    import py_ballisticcalc as pb
    U = pb.Unit
    out = []
    dm = pb.DragModel(0.223, pb.TableG7)
    # step and gravity: first step of a level vacuum shot from the bore line - measured BEFORE any other calculator is created here (a setting
    # that lives on the class would be overwritten by the helper calculator below and look right)
    shot = pb.Shot(pb.Weapon(U.Inch(0), U.Inch(0)), pb.Ammo(dm, U.FPS(2500)), atmo=pb.Vacuum())
    tr, _ = _trace(calc, shot, 3.0)
    free_cfg = dict(cfg)
    free_cfg.update(RELAX)
    free = pb.Calculator(_config=free_cfg)
    adv = (tr[1].distance >> U.Foot) - (tr[0].distance >> U.Foot)
    ms = cfg['max_calc_step_size_feet']
    if not (ms / 4 < adv <= ms * (1 + 1e-9)):
        out.append(f'first step advances {adv!r} ft with maximum step configured as {ms} ft')
    t = tr[1].time
    g = ((tr[1].height >> U.Foot) - (tr[0].height >> U.Foot)) / (t * t)
    if abs(g - cfg['cGravityConstant']) > 1e-6 * abs(cfg['cGravityConstant']):
        out.append(f'vacuum drop corresponds to gravity {g!r}, configured {cfg["cGravityConstant"]}')
    # limits: the limited run must stop at the first point of the same run with relaxed limits that violates a configured limit
    for name, s in (('level', pb.Shot(pb.Weapon(U.Inch(0), U.Inch(0)), pb.Ammo(dm, U.FPS(2500)))),
                    ('down1', pb.Shot(pb.Weapon(U.Inch(0), U.Inch(0)), pb.Ammo(dm, U.FPS(2500)), relative_angle=U.Degree(-1))),
                    # from a station at 12000 ft steeply downward: falls 1700 ft, which is between the default altitude floor (-1410.7 ft above sea
                    # level, far away here) and the default drop limit (-15000 ft): with default limits nothing may stop it
                    ('steep_high', pb.Shot(pb.Weapon(U.Inch(0), U.Inch(0)), pb.Ammo(dm, U.FPS(2500)), relative_angle=U.Degree(-80), atmo=pb.Atmo.icao(U.Foot(12000))))):
        R = 1500.0 if name != 'steep_high' else 300.0
        ftr, _ = _trace(free, s, R)
        exp = None
        alt0 = s.atmo.altitude >> U.Foot
        for i, r in enumerate(ftr[1:], 1):
            v, y = r.velocity >> U.FPS, r.height >> U.Foot
            if v < cfg['cMinimumVelocity']:
                exp = (pb.RangeError.MinimumVelocityReached, i)
            elif y < cfg['cMaximumDrop']:
                exp = (pb.RangeError.MaximumDropReached, i)
            elif alt0 + y < cfg['cMinimumAltitude']:
                exp = (pb.RangeError.MinimumAltitudeReached, i)
            if exp:
                break
        ltr, err = _trace(calc, s, R)
        if exp is None:
            if err is not None:
                out.append(f'{name} shot: range error {err.reason!r} although no point of the unlimited run violates limits {cfg}')
        else:
            if err is None:
                out.append(f'{name} shot: no range error although point {exp[1]} of the unlimited run violates {exp[0]!r} (limits {cfg})')
            elif err.reason != exp[0] or bits(ltr[-1].distance.raw_value) != bits(ftr[exp[1]].distance.raw_value):
                out.append(f'{name} shot: stopped with {err.reason!r} at {ltr[-1].distance >> U.Foot!r} ft; first violated limit of the unlimited run is {exp[0]!r} at '
                           f'{ftr[exp[1]].distance >> U.Foot!r} ft (limits {cfg})')
    # zero finding accuracy and iteration cap
    s = pb.Shot(pb.Weapon(U.Inch(2), U.Inch(0)), pb.Ammo(dm, U.FPS(2500)))
    acc, cap = cfg['cZeroFindingAccuracy'], cfg['cMaxIterations']
    zd = 300.0
    try:
        flat = free.fire(s, U.Foot(zd), U.Foot(zd)).trajectory[-1]
        e1 = abs(flat.height >> U.Foot)
    except pb.RangeError:
        e1 = None
    try:
        z = calc.set_weapon_zero(s, U.Foot(zd))
        res = ('ok', z)
    except pb.ZeroFindingError as e:
        res = ('zfe', e)
    except pb.RangeError as e:
        res = ('range', e)
    if res[0] == 'ok':
        try:
            back = free.fire(s, U.Foot(zd), U.Foot(zd)).trajectory[-1]
            miss = abs(back.height >> U.Foot)
            slope = abs(math.tan(back.angle >> U.Radian))
            if miss > acc + cfg['max_calc_step_size_feet'] * slope + 1e-9:
                out.append(f'zeroing returned with a miss of {miss!r} ft, configured accuracy {acc}')
            if cap == 1 and e1 is not None and e1 > acc:
                out.append(f'zeroing succeeded with iteration cap 1 although the first evaluation misses by {e1!r} ft > accuracy {acc}')
        except pb.RangeError:
            pass
    elif res[0] == 'zfe':
        e = res[1]
        if e.iterations_count != cap:
            out.append(f'ZeroFindingError after {e.iterations_count} iterations, configured cap {cap}')
        if not e.zero_finding_error > acc:
            out.append(f'ZeroFindingError with error {e.zero_finding_error!r} ft although the configured accuracy is {acc}')
    return out, {'adv': bits(adv), 'g': bits(g), 'zero': res[0]}


def subset(cell):
    import py_ballisticcalc as pb
    sub = cell
    over = {k: OVER[k] for k in sub}
    cfg = dict(DEFAULTS)
    cfg.update(over)
    before = pb.Calculator()
    given = dict(over)
    calc = pb.Calculator(_config=given) if over else pb.Calculator()
    # the settings are those GIVEN AT CREATION: editing the caller's dict afterwards must not reach the calculator
    for k in list(given):
        given[k] = DEFAULTS[k]
    given['cMinimumVelocity'] = 2500.0
    after = pb.Calculator()
    out = []
    o, obs = observe(calc, cfg)
    out += [{'msg': f'calculator with overrides {over}: {m}', 'key': None} for m in o]
    for name, d in (('created before', before), ('created after', after)):
        o2, obs2 = observe(d, DEFAULTS)
        out += [{'msg': f'default calculator {name} one with overrides {over}: {m}', 'key': None} for m in o2]
    # one dict object reused for several calculators while the global default step changes in between: each calculator takes the settings in the
    # dict plus the defaults IN FORCE WHEN IT IS CREATED (the unspecified ones must not stick to the dict)
    import py_ballisticcalc as pb_
    U = pb_.Unit
    shared = dict(over)
    n_sh = 0
    try:
        for g_ft in (None, 0.25, None, 0.125):
            if g_ft is None:
                pb_.reset_globals()
            else:
                pb_.set_global_max_calc_step_size(U.Foot(g_ft))
            c_sh = pb_.Calculator(_config=shared)
            want = over.get('max_calc_step_size_feet', g_ft if g_ft is not None else 0.5)
            got = first_advance(c_sh)
            n_sh += 1
            if got != first_advance(pb_.Calculator(_config={'max_calc_step_size_feet': want})):
                out.append({'msg': f'the same settings dict {over} reused for a calculator created while the global default step is {g_ft or 0.5} ft: '
                                   f'it does not step like a calculator with maximum step {want} ft (settings of an earlier creation stuck to the dict?)', 'key': None})
                break
    finally:
        pb_.reset_globals()
    return {'v': out[:4], 'n': 3 + n_sh, 'states': 3 + n_sh, 'transitions': 3 + n_sh, 'traces': 3, 'nt': cell if sub else None, 'obs': [obs['zero'], len(sub)]}


def defaults(cell):
    """documented defaults: standard gravity, 0.5 ft maximum step, whatever the preferred units"""
    import py_ballisticcalc as pb
    pb.PreferredUnits.distance = pb.Unit[cell]
    pb.reset_globals()
    c = pb.Calculator()
    out = []
    o, _ = observe(c, DEFAULTS)
    out += [{'msg': f'default calculator (preferred distance {cell}): {m}', 'key': None} for m in o]
    g = pb.get_global_max_calc_step_size()
    if abs((g >> pb.Unit.Foot) - 0.5) > 1e-12:
        out.append({'msg': f'global default step is {g >> pb.Unit.Foot} ft, documented 0.5 ft', 'key': None})
    return {'v': out, 'n': 1, 'nt': cell, 'states': 1, 'transitions': 1, 'traces': 1}


# ---------------------------------------------------------------------------------------------------------------------
# global default-step histories, explored to closure against a dictionary model
HOPS = ['set_quarter_ft', 'set_1m', 'set_0', 'set_neg', 'set_bare_half_yd', 'reset', 'create', 'create_override', 'drop_oldest', 'load_metric', 'load_imperial']
METER_FT = 1000 / 25.4 / 12


def first_advance(calc):
    import py_ballisticcalc as pb
    U = pb.Unit
    shot = pb.Shot(pb.Weapon(U.Inch(0), U.Inch(0)), pb.Ammo(pb.DragModel(0.223, pb.TableG7), U.FPS(2500)), atmo=pb.Vacuum())
    tr = calc.fire(shot, U.Foot(5), U.Foot(50), False, 1e-12).trajectory
    return bits((tr[1].distance >> U.Foot) - (tr[0].distance >> U.Foot))


def history(cell):
    """BFS to closure. state (model) = (global step ft, tuple of live calculators' steps)."""
    import py_ballisticcalc as pb
    U = pb.Unit
    max_live = cell
    ref_adv = {}

    def expected_adv(step):
        if step not in ref_adv:
            ref_adv[step] = first_advance(pb.Calculator(_config={'max_calc_step_size_feet': step}))
        return ref_adv[step]

    def run(hist):
        """replay a history on the real library from a fresh world; returns (model_state, violations)"""
        pb.PreferredUnits.defaults()
        pb.reset_globals()
        g = 0.5
        live = []   # (calculator, model_step)
        viol = []
        for op in hist:
            if op == 'set_quarter_ft':
                pb.set_global_max_calc_step_size(U.Foot(0.25))
                g = 0.25
            elif op == 'set_1m':
                pb.set_global_max_calc_step_size(U.Meter(1))
                g = U.Meter(1) >> U.Foot
            elif op == 'set_bare_half_yd':
                pb.set_global_max_calc_step_size(0.5)     # bare number in the preferred distance unit (yard unless a preset changed it)
                g = pb.PreferredUnits.distance(0.5) >> U.Foot
            elif op in ('set_0', 'set_neg'):
                try:
                    pb.set_global_max_calc_step_size(U.Foot(0) if op == 'set_0' else -1)
                    viol.append(f'history {hist}: global step setter accepted a non-positive value ({op})')
                except ValueError:
                    pass
            elif op == 'reset':
                pb.reset_globals()
                g = 0.5
            elif op in ('load_metric', 'load_imperial'):
                # a unit preset chooses display / bare-number units; the default step is none of its business
                (pb.loadMetricUnits if op == 'load_metric' else pb.loadImperialUnits)()
            elif op == 'create':
                live.append((pb.Calculator(), g))
            elif op == 'create_override':
                live.append((pb.Calculator(_config={'max_calc_step_size_feet': 0.1}), 0.1))
            elif op == 'drop_oldest':
                live.pop(0)
            # observe after every transition: global getter and every live calculator
            got_g = pb.get_global_max_calc_step_size() >> U.Foot
            if abs(got_g - g) > 1e-12 * g:
                viol.append(f'history {hist}: global default step reads {got_g!r} ft, model says {g!r}')
            for c, step in live:
                if first_advance(c) != expected_adv(step):
                    viol.append(f'history {hist}: a calculator created when the step was {step!r} ft does not step like a calculator configured with that step')
            if viol:
                break
        return (round(g, 9), tuple(round(s, 9) for _, s in live)), viol

    def enabled(state, op):
        g, live = state
        if op in ('create', 'create_override'):
            return len(live) < max_live
        if op == 'drop_oldest':
            return len(live) > 0
        return True

    seen = {(0.5, ()): []}
    frontier = [[]]
    transitions = 0
    out = []
    while frontier:
        hist = frontier.pop(0)
        state = next(s for s, h in seen.items() if h == hist)
        for op in HOPS:
            if not enabled(state, op):
                continue
            nxt, viol = run(hist + [op])
            transitions += 1
            for m in viol:
                if len(out) < 3:
                    out.append({'msg': m, 'key': None})
            if nxt not in seen:
                seen[nxt] = hist + [op]
                frontier.append(hist + [op])
        if len(seen) > 5000:
            out.append({'msg': 'global-step state space did not close below 5000 states', 'key': None})
            break
    pb.reset_globals()
    return {'v': out, 'n': transitions, 'states': len(seen), 'transitions': transitions, 'traces': transitions, 'nt': cell, 'obs': len(seen)}


# ---------------------------------------------------------------------------------------------------------------------
ADV_SHOTS = {
    'flat': {}, 'tail30': {'wind': [[30, 0, None]]}, 'head30': {'wind': [[30, 180, None]]}, 'cross60': {'wind': [[60, 90, None]]},
    'slow': {'mv': 300.0}, 'arc45': {'zero': 45.0, 'mv': 800.0}, 'down30': {'look': -30.0}, 'pellet': {'dm': 'G1', 'bc': 0.03, 'mv': 900.0},
    'vacuum': {'atmo': 'vac'}, 'alt5k': {'atmo': 'icao5k'}, 'hot': {'mv': 3600.0},
    # air speed more than twice the ground speed (slow projectile into a gale) and the reverse (tail gale)
    'crawl_head': {'mv': 90.0, 'wind': [[70, 180, None]], '_R': 8.0}, 'crawl_tail': {'mv': 90.0, 'wind': [[50, 0, None]], '_R': 8.0},
    'vertical_slow': {'zero': 90.0, 'mv': 300.0, '_cfg': {'cMinimumVelocity': 0.0}, '_R': 10.0},
    'zero_velocity': {'mv': 0.0, '_cfg': {'cMinimumVelocity': 0.0}, '_R': 10.0},
    # requests far beyond reach (the whole flight down to a limit is integrated): the step follows the setting whatever range is asked for
    'far_pellet': {'dm': 'G1', 'bc': 0.03, 'mv': 900.0, 'zero': 1.0, '_R': 3.0e6, '_far': True},
    'far_arc': {'zero': 60.0, 'mv': 500.0, '_R': 1.0e7, '_far': True},
}


def advance(cell):
    """no integration step advances the projectile through the air by more than the configured maximum step"""
    import py_ballisticcalc as pb
    from mc.ref import ode
    U = pb.Unit
    name, ms = cell
    spec = dict(ADV_SHOTS[name])
    cfg = dict(spec.pop('_cfg', {}))
    far = spec.pop('_far', False)
    R = spec.pop('_R', 600.0)
    if not far:
        R = min(R, 2400 * ms)       # at most ~5000 integration steps
    cfg['max_calc_step_size_feet'] = ms
    calc = pb.Calculator(_config=cfg)
    shot = make_shot(spec)
    tr, err = _trace(calc, shot, R)
    w = (0.0, 0.0, 0.0)
    if spec.get('wind'):
        w = ode.segments(spec['wind'])[0][1]
    out = []
    worst = 0.0
    n = 0
    for a, b in zip(tr, tr[1:]):
        dt = b.time - a.time
        dx = (b.distance >> U.Foot) - (a.distance >> U.Foot)
        dy = (b.height >> U.Foot) - (a.height >> U.Foot)
        dz = (b.windage >> U.Foot) - (a.windage >> U.Foot)
        adv = math.sqrt((dx - w[0] * dt) ** 2 + dy * dy + (dz - w[2] * dt) ** 2)
        n += 1
        worst = max(worst, adv / ms)
        if adv > ms * (1 + 1e-9):
            v_pre = a.velocity >> U.FPS
            key = 'slow-step' if (v_pre < 10.0 and not spec.get('wind')) else None
            if len(out) < 3:
                out.append({'msg': f'{name} with maximum step {ms} ft: step from {a.distance >> U.Foot!r} ft (speed {v_pre:.2f} fps) advances {adv!r} ft through the air', 'key': key})
    if err is not None and n < 3:
        return {'vac': True}
    return {'v': out, 'n': n, 'states': n, 'transitions': n, 'traces': 1, 'nt': cell, 'extra': {'max_advance_over_max_step': worst if not out else 0.0}}


# ---------------------------------------------------------------------------------------------------------------------
def casings(name):
    out = {name, name.lower(), name.upper(), name.title(), name.swapcase()}
    letters = [i for i, ch in enumerate(name) if ch.lower() != ch.upper()]
    if len(letters) <= 10:
        for mask in itertools.product((0, 1), repeat=len(letters)):
            chars = list(name.lower())
            for i, m in zip(letters, mask):
                if m:
                    chars[i] = chars[i].upper()
            out.add(''.join(chars))
    # only casings that stay within simple case folding (str.lower() must give back the lower-case alias)
    return sorted(c for c in out if c.lower() == name.lower())


def name_table():
    from py_ballisticcalc.unit import Unit, UnitAliases
    table = [(u.name, u.name, 'member') for u in Unit]
    for als, u in UnitAliases.items():
        for a in als:
            table.append((a, u.name, 'alias'))
    return table


def names(cell):
    import py_ballisticcalc as pb
    from py_ballisticcalc.unit import Unit, _parse_unit, _parse_value, PreferredUnits
    from py_ballisticcalc.exceptions import UnitAliasError
    from mc.ref.units import DIM_OF
    from mc.checks.c07 import SLOT_DIM
    idx = cell
    name, uname, kind = name_table()[idx]
    exp = Unit[uname]
    out = []
    n = 0
    cs = casings(name)
    slot = next(s for s, d in SLOT_DIM.items() if d == DIM_OF[uname])

    def bad(m):
        if len(out) < 4:
            out.append({'msg': f'{kind} {name!r} of {uname}: {m}', 'key': None})
    for c in cs:
        for pad in ('{}', ' {}', '{} ', ' {} '):
            s = pad.format(c)
            n += 1
            try:
                r = _parse_unit(s)
            except Exception as e:  # noqa
                r = f'{type(e).__name__}'
            if r is None or r != exp or not isinstance(r, Unit):
                bad(f'_parse_unit({s!r}) = {r!r}')
        # setter channel
        PreferredUnits.defaults()
        other = Unit.Degree if exp != Unit.Degree else Unit.MOA
        if SLOT_DIM[slot] != 'angular':
            other = next(Unit[x] for x, d in DIM_OF.items() if d == SLOT_DIM[slot] and x != uname)
        setattr(PreferredUnits, slot, other)
        PreferredUnits.set(**{slot: c})
        n += 1
        if getattr(PreferredUnits, slot) != exp or not isinstance(getattr(PreferredUnits, slot), Unit):
            bad(f'PreferredUnits.set({slot}={c!r}) left the slot at {getattr(PreferredUnits, slot)!r}')
        # value strings (blanks are removed by documentation: entries with inner blanks are not sent)
        if ' ' not in name:
            for prefix, val in (('1', 1.0), ('-1.5', -1.5), ('.5', 0.5), ('2.', 2.0), ('10 ', 10.0)):
                n += 1
                try:
                    q = _parse_value(prefix + c, Unit.Meter)
                    if q.units != exp or abs(q.unit_value - val) > 1e-9 * abs(val):
                        bad(f'_parse_value({prefix + c!r}) = {q!r}')
                except Exception as e:  # noqa
                    bad(f'_parse_value({prefix + c!r}) raised {type(e).__name__}')
            n += 1
            try:
                q = _parse_value(3, c)
                if q.units != exp:
                    bad(f'_parse_value(3, preferred={c!r}) = {q!r}')
            except Exception as e:  # noqa
                bad(f'_parse_value(3, preferred={c!r}) raised {type(e).__name__}')
    # basicConfig and generated toml for a handful of casings
    tmp = tempfile.mkdtemp(prefix='pybc_verif_')
    try:
        for c in [cs[0], cs[-1], name, name.upper()]:
            if '\n' in c or "'" in c:
                continue
            PreferredUnits.defaults()
            setattr(PreferredUnits, slot, other)
            pb.basicConfig(preferred_units={slot: c})
            n += 1
            if getattr(PreferredUnits, slot) != exp:
                bad(f'basicConfig(preferred_units={{{slot!r}: {c!r}}}) left the slot at {getattr(PreferredUnits, slot)!r}')
            path = os.path.join(tmp, 'pybc.toml')
            with open(path, 'w', encoding='utf-8') as fh:
                fh.write('[pybc.preferred_units]\n' + f"{slot} = '{c}'\n")
                if DIM_OF[uname] == 'distance':
                    fh.write('[pybc.calculator]\n' + f"max_calc_step_size = {{ value = 0.3, units = '{c}' }}\n")
                else:
                    fh.write('[pybc.calculator]\nmax_calc_step_size = { value = 0.4, units = "Foot" }\n')
            PreferredUnits.defaults()
            setattr(PreferredUnits, slot, other)
            pb.reset_globals()
            pb.basicConfig(path, suppress_warnings=True)
            n += 1
            if getattr(PreferredUnits, slot) != exp:
                bad(f'config file with {slot} = {c!r} left the slot at {getattr(PreferredUnits, slot)!r}')
            if DIM_OF[uname] == 'distance':
                want = exp(0.3) >> Unit.Foot
                got = pb.Calculator()._calc._config.max_calc_step_size_feet
                if abs(got - want) > 1e-12 * want:
                    bad(f'config file max_calc_step_size units = {c!r}: calculators created afterwards use {got!r} ft, expected {want!r} ft')
            pb.reset_globals()
    finally:
        shutil.rmtree(tmp, ignore_errors=True)
        PreferredUnits.defaults()
        pb.reset_globals()
    return {'v': out, 'n': n, 'states': len(cs), 'transitions': n, 'traces': n, 'nt': [name, uname] if len(cs) >= 2 else None, 'obs': [kind, len(cs) > 4]}


UNKNOWN = ['', 'foo', 'yards', 'meterz', 'furlong', 'metre', 'Foot.', 'set', 'defaults', '__doc__', '__init__', '__module__', '__dataclass_fields__', 'unit', 'none', '0', 'degree2']


def unknown(cell):
    import py_ballisticcalc as pb
    from py_ballisticcalc.unit import Unit, _parse_unit, _parse_value, PreferredUnits
    name = cell
    out = []
    snapshot = {s: getattr(PreferredUnits, s) for s in PreferredUnits.__dataclass_fields__}

    def unchanged(what):
        now = {s: getattr(PreferredUnits, s) for s in PreferredUnits.__dataclass_fields__}
        if now != snapshot:
            out.append({'msg': f'unknown unit name {name!r} via {what} changed the settings: {[(k, now[k]) for k in now if now[k] != snapshot[k]]}', 'key': None})
            PreferredUnits.defaults()
    try:
        r = _parse_unit(name)
        if r is not None:
            out.append({'msg': f'_parse_unit({name!r}) returned {r!r} instead of raising or returning nothing', 'key': None})
    except Exception:  # noqa
        pass
    for slot in ('angular', 'distance', 'temperature'):
        try:
            PreferredUnits.set(**{slot: name})
        except Exception:  # noqa
            pass
        unchanged(f'PreferredUnits.set({slot}=...)')
        try:
            pb.basicConfig(preferred_units={slot: name})
        except Exception:  # noqa
            pass
        unchanged('basicConfig')
    if name:
        try:
            q = _parse_value('1.5' + name, Unit.Meter)
            if name.strip() not in ('0',):
                out.append({'msg': f'_parse_value({"1.5" + name!r}) returned {q!r} for an unknown unit name', 'key': None})
        except Exception:  # noqa
            pass
        try:
            q = _parse_value(2, name)
            out.append({'msg': f'_parse_value(2, preferred={name!r}) returned {q!r} for an unknown unit name', 'key': None})
        except Exception:  # noqa
            pass
    # ... and through a configuration file: an unknown name for a preferred unit or for the unit of the maximum step leaves both where they were
    import os
    import shutil
    import tempfile
    if "'" not in name and '\n' not in name:
        tmp = tempfile.mkdtemp(prefix='pybc_verif_')
        try:
            path = os.path.join(tmp, 'pybc.toml')
            with open(path, 'w', encoding='utf-8') as fh:
                fh.write(f"[pybc.preferred_units]\ndistance = '{name}'\n[pybc.calculator]\nmax_calc_step_size = {{ value = 0.3, units = '{name}' }}\n")
            pb.reset_globals()
            before_step = pb.get_global_max_calc_step_size() >> Unit.Foot
            try:
                pb.basicConfig(path, suppress_warnings=True)
            except Exception:  # noqa
                pass
            unchanged('a configuration file')
            after_step = pb.get_global_max_calc_step_size() >> Unit.Foot
            calc_step = pb.Calculator()._calc._config.max_calc_step_size_feet
            if abs(after_step - before_step) > 1e-12 or abs(calc_step - before_step) > 1e-12:
                out.append({'msg': f'configuration file with max_calc_step_size units = {name!r} (unknown): the global step went from {before_step!r} ft to {after_step!r} ft '
                                   f'(calculators created afterwards: {calc_step!r} ft) instead of staying unchanged', 'key': None})
        finally:
            shutil.rmtree(tmp, ignore_errors=True)
            pb.reset_globals()
    # unknown slot names leave everything unchanged
    try:
        PreferredUnits.set(**{'no_such_slot': 'meter'})
    except Exception:  # noqa
        pass
    unchanged('unknown slot')
    return {'v': out[:3], 'n': 9, 'states': 1, 'transitions': 9, 'traces': 9, 'nt': name}


def cap(cell):
    """the iteration cap is the number of passes of the zero search: with an accuracy that cannot be met the search must give up after exactly
    `cap` passes (and say so), for every cap"""
    import py_ballisticcalc as pb
    U = pb.Unit
    k, look = cell
    calc = pb.Calculator(_config={'cMaxIterations': k, 'cZeroFindingAccuracy': 1e-300})
    shot = pb.Shot(pb.Weapon(U.Inch(2), U.Inch(0)), pb.Ammo(pb.DragModel(0.223, pb.TableG7), U.FPS(2600)), look_angle=U.Degree(look))
    out = []
    try:
        z = calc.set_weapon_zero(shot, U.Yard(100))
        # it may return only if it really met the accuracy, i.e. the miss is exactly zero in floating point (this does happen, rarely)
        x_ = 300.0 * math.cos(math.radians(look))
        back = [r for r in calc.fire(shot, U.Foot(x_), U.Foot(x_)).trajectory if r.flag & 8][-1]
        if abs(back.target_drop >> U.Foot) > 1e-300:
            out.append({'msg': f'iteration cap {k}, accuracy 1e-300 ft: zeroing returned {z >> U.MOA!r} MOA instead of giving up (the miss is {back.target_drop >> U.Foot!r} ft)', 'key': None})
        else:
            return {'vac': True, 'obs': 'exact zero reached'}
    except pb.ZeroFindingError as e:
        if e.iterations_count != k:
            out.append({'msg': f'iteration cap {k} (look {look} deg): the zero search gave up after {e.iterations_count} iterations', 'key': None})
    return {'v': out, 'n': 1, 'nt': cell, 'states': 1, 'transitions': 1, 'traces': 1}


def basic(cell):
    """basicConfig with keywords: the preferred units given are set, the step given becomes the default step of calculators created afterwards -
    each alone and both together; nothing else changes"""
    import py_ballisticcalc as pb
    from py_ballisticcalc.unit import Unit, PreferredUnits
    units, step = cell
    PreferredUnits.defaults()
    pb.reset_globals()
    pb.set_global_max_calc_step_size(Unit.Foot(0.4))
    before = {s_: getattr(PreferredUnits, s_) for s_ in PreferredUnits.__dataclass_fields__}
    kw = {}
    if units:
        kw['preferred_units'] = dict(units)
    if step is not None:
        kw['max_calc_step_size'] = Unit[step[1]](step[0])
    out = []
    try:
        pb.basicConfig(**kw)
        for s_, v in before.items():
            want = Unit[units[s_]] if units and s_ in units else v
            if getattr(PreferredUnits, s_) != want:
                out.append({'msg': f'basicConfig({kw}): preferred {s_} is {getattr(PreferredUnits, s_)!r}, expected {want!r}', 'key': None})
        want_step = (Unit[step[1]](step[0]) >> Unit.Foot) if step is not None else 0.4
        got_step = pb.Calculator()._calc._config.max_calc_step_size_feet
        got_g = pb.get_global_max_calc_step_size() >> Unit.Foot
        if abs(got_step - want_step) > 1e-12 or abs(got_g - want_step) > 1e-12:
            out.append({'msg': f'basicConfig({kw}) after a global step of 0.4 ft: calculators created afterwards step {got_step!r} ft, the getter says {got_g!r} ft, expected {want_step!r} ft', 'key': None})
    finally:
        PreferredUnits.defaults()
        pb.reset_globals()
    return {'v': out[:3], 'n': 2, 'nt': cell, 'states': 1, 'transitions': 2, 'traces': 1}


def golden_aliases(cell):
    """the alias table documents itself - so a slip IN the table (two aliases fused by a missing comma, an alias dropped) is invisible to a check that
    reads the table from the tree under test. Every alias the table had at the pinned commit must still resolve to the same unit."""
    import json
    import os
    from mc.core import VERIF
    from py_ballisticcalc.unit import Unit, _parse_unit, _parse_value
    g = json.load(open(os.path.join(VERIF, 'golden', 'unit_aliases.json'), encoding='utf-8'))['aliases']
    out = []
    n = 0
    for alias, uname in sorted(g.items()):
        if uname not in Unit.__members__:
            continue
        for form in (alias, alias.upper()):
            if form.lower() != alias.lower():
                continue
            n += 1
            try:
                r = _parse_unit(form)
            except Exception as e:   # noqa
                r = f'raised {type(e).__name__}'
            if r != Unit[uname] or not isinstance(r, Unit):
                if len(out) < 4:
                    out.append({'msg': f'alias {form!r} of {uname} (documented in the alias table of the pinned commit) resolves to {r!r}', 'key': None})
                break
        if ' ' not in alias:
            n += 1
            try:
                v = _parse_value(f'2.5{alias}', None)
                ok = v is not None and v.units == Unit[uname]
            except Exception as e:   # noqa
                ok = False
            if not ok and len(out) < 4:
                out.append({'msg': f"value string '2.5{alias}' is not read as 2.5 {uname} (alias documented at the pinned commit)", 'key': None})
    return {'v': out, 'n': n, 'nt': 'golden', 'states': n, 'transitions': n, 'traces': n}


PARTS = {'subset': subset, 'defaults': defaults, 'history': history, 'advance': advance, 'names': names, 'unknown': unknown, 'golden_aliases': golden_aliases, 'cap': cap, 'basic': basic}


def plan(tier):
    subs = [list(s) for r in range(0, 9) for s in itertools.combinations(KEYS, r)]
    if tier == 'quick':
        subs = [s for s in subs if len(s) <= 2 or len(s) >= 7] + [s for s in subs if 2 < len(s) < 7][::5]
    # cap-1 variants: iteration cap 1 must fail from a cold start
    nm = list(range(len(name_table_static())))
    adv = [[n, ms] for n in ADV_SHOTS for ms in ((0.5,) if tier == 'quick' else (0.5, 0.1, 1.0))]
    # small and large configured steps on fast and slow projectiles (the step must follow the setting over its whole range)
    adv += [[n, ms] for n in ('flat', 'hot', 'tail30', 'slow', 'pellet') for ms in ((0.02, 2.0) if tier == 'quick' else (0.05, 0.02, 0.005, 2.0, 5.0))]
    return [('subset', subs), ('defaults', ['Yard', 'Meter', 'Inch']), ('history', [2 if tier == 'quick' else 3]), ('advance', adv),
            ('names', nm), ('unknown', UNKNOWN), ('golden_aliases', [0]), ('cap', [[k, lk] for k in (1, 2, 3, 5, 8) for lk in (0.0, 10.0)]),
            ('basic', [[u_, st_] for u_ in (None, {'distance': 'Meter'}, {'velocity': 'MPS', 'sight_height': 'Centimeter'}) for st_ in (None, [0.3, 'Foot'], [0.1, 'Meter'])
                       if u_ or st_])]


def name_table_static():
    from mc import core
    core.bind_repo()
    return name_table()

"""C08 - atmosphere reproduces the ISA and is self-consistent across altitude.
Engine E1, full grids."""
import math

PID = 'C08'
# thread bodies (defined with engine E4, mc/checks/c10_sched.py) that exercise this property's code; explored after the parts below
SCHED_SETS = [('steep||steep', 'call')]
LEVEL = 'exploration'
ENGINE = 'E1'
TECHNIQUE = 'bounded exhaustive enumeration (full altitude grid, station x query grid incl. both sides of the 30-ft shortcut, full T x P x humidity grid) against an independent ISO 2533 model and monotonicity along every grid line'
RULE = ('isa cells = every altitude -1400..36000 ft step 100 ft (thorough 25 ft); station cells = {standard, hot-humid, cold, -60 C, +60 C-saturated} stations at {-1000,0,5000,15000,30000 ft} x '
        'query every 250 ft plus offsets {0,+-1,+-29.999,+-30,+-30.001} around the station, standard and two non-standard stations; '
        'history cells = every sequence of <= 3 (thorough 4) operations over {query near/100 ft/5000 ft away, set humidity 0/0.5/100 %, set invalid humidity} on a live atmosphere, compared after every step with a freshly built one; grid cells = T -60..60 C step 10 x P 500..1100 hPa step 100 x humidity {0,.25,.5,.75,1}; non-trivial = query altitude differs '
        'from the station / grid cell with all three neighbours present')
ASSUMPTIONS = ['ISO 2533 constants (T0 288.15 K, L 6.5 K/km, P0 101325 Pa, R 287.05287, gamma 1.4, g0 9.80665); rho0 1.225',
               'grid values only; troposphere only (<= 36000 ft)']

T0, LAPSE, P0, RS, GAMMA, G0 = 288.15, 0.0065, 101325.0, 287.05287, 1.4, 9.80665
FT = 0.3048


def isa(h_ft):
    h = h_ft * FT
    T = T0 - LAPSE * h
    P = P0 * (T / T0) ** (G0 / (RS * LAPSE))
    rho = P / (RS * T)
    return T, P, rho / 1.225, math.sqrt(GAMMA * RS * T)


def lapse30(t_kelvin):
    """relative change of density and speed of sound over 30.001 ft for a station at temperature T (lapse model anchored at the station)"""
    dh = 30.001 * FT
    t2 = t_kelvin - LAPSE * dh
    dens = (t2 / t_kelvin) ** (G0 / (RS * LAPSE)) * (t_kelvin / t2)
    return abs(dens - 1), abs(math.sqrt(t2 / t_kelvin) - 1)


def isa_cell(cell):
    import py_ballisticcalc as pb
    U = pb.Unit
    hft, prefs = cell if isinstance(cell, list) else (cell, None)
    T, P, dr, a = isa(hft)
    out = []
    worst = 0.0
    if prefs:
        # the standard atmosphere is the ISA whatever units are preferred (factories that hand bare numbers on would read them in these units)
        pb.PreferredUnits.set(**{k: getattr(U, v) for k, v in prefs.items()})
    for name, at in (('icao', pb.Atmo.icao(U.Foot(hft))), ('standard', pb.Atmo.standard(U.Foot(hft))),
                     ('Atmo(altitude)', pb.Atmo(U.Foot(hft))), ('icao(meters)', pb.Atmo.icao(U.Meter(hft * FT)))):
        got = {'temperature': at.temperature >> U.Kelvin, 'pressure': (at.pressure >> U.hPa) * 100, 'density ratio': at.density_ratio,
               'speed of sound': at.mach >> U.MPS}
        ref = {'temperature': T, 'pressure': P, 'density ratio': dr, 'speed of sound': a}
        for k in got:
            e = abs(got[k] - ref[k]) / ref[k]
            worst = max(worst, e)
            if not e <= 1e-4:
                out.append({'msg': f'{name} at {hft} ft: {k} = {got[k]!r}, ISA gives {ref[k]!r} (rel {e:.2e} > 1e-4)', 'key': None})
        if abs((at.altitude >> U.Foot) - hft) > 1e-9 * max(1, abs(hft)):
            out.append({'msg': f'{name}: altitude {at.altitude >> U.Foot} != {hft}', 'key': None})
    # the factory takes a humidity: the result is the standard station at that altitude with that humidity (and lighter than the dry one)
    dry = pb.Atmo.icao(U.Foot(hft))
    for h in (50, 0.8):
        wet = pb.Atmo.icao(U.Foot(hft), humidity=h)
        same = pb.Atmo(U.Foot(hft), dry.pressure, dry.temperature, h)
        if not wet.density_ratio < dry.density_ratio or abs(wet.density_ratio - same.density_ratio) > 1e-12 * same.density_ratio:
            out.append({'msg': f'Atmo.icao({hft} ft, humidity={h}) has density ratio {wet.density_ratio!r}; dry {dry.density_ratio!r}, Atmo with the standard values and that humidity {same.density_ratio!r}', 'key': None})
    if prefs:
        pb.PreferredUnits.defaults()
        return {'v': [dict(v, msg=f'under preferred units {prefs}: ' + v['msg']) for v in out[:4]], 'n': 6, 'nt': [hft, sorted(prefs)]}
    # a bare number is that number in the preferred distance unit (yards) - and never the same thing as a quantity with the same raw number
    for label, arg, alt_ft in (('bare number (yards)', float(hft) / 3.0, float(hft)), ('Inch quantity with the same raw number', U.Inch(float(hft) / 3.0), hft / 36.0)):
        if not -1400 <= alt_ft <= 36000:
            continue
        at = pb.Atmo.icao(arg)
        Tq, Pq, drq, aq = isa(alt_ft)
        if abs(at.density_ratio - drq) / drq > 1e-4 or abs((at.altitude >> U.Foot) - alt_ft) > 1e-6 * max(1.0, abs(alt_ft)):
            out.append({'msg': f'Atmo.icao({label} {float(hft) / 3.0!r}) is an atmosphere at {at.altitude >> U.Foot!r} ft with density ratio {at.density_ratio!r}; expected {alt_ft!r} ft, ISA {drq!r}', 'key': None})
    return {'v': out[:4], 'n': 6, 'nt': hft if hft != 0 else None, 'extra': {'max_isa_rel_err': worst}}


STATIONS = {'std': None, 'hot': (28.0, 95.0, 60), 'cold': (31.0, -20.0, 10), 'frigid': (29.0, -76.0, 0), 'torrid': (29.5, 140.0, 100), 'powder': (29.92, 41.0, 0, 100.0)}   # inHg, deg F (-60 C / +60 C: the corners of the domain), % humidity


def _station(kind, a0):
    import py_ballisticcalc as pb
    U = pb.Unit
    if kind == 'std':
        return pb.Atmo.icao(U.Foot(a0))
    p, t, h = STATIONS[kind][:3]
    if len(STATIONS[kind]) > 3:      # powder temperature given (none of the atmosphere's business)
        return pb.Atmo(U.Foot(a0), U.InHg(p), U.Fahrenheit(t), h, U.Fahrenheit(STATIONS[kind][3]))
    return pb.Atmo(U.Foot(a0), U.InHg(p), U.Fahrenheit(t), h)


def station(cell):
    import py_ballisticcalc as pb
    U = pb.Unit
    kind, a0, q = cell
    st = _station(kind, a0)
    d, m = st.get_density_factor_and_mach_for_altitude(q)
    out = []
    off = q - a0
    m_st = st.mach >> U.FPS
    if off == 0:
        if d != st.density_ratio or abs(m - m_st) > 1e-12 * m_st:
            out.append({'msg': f'{kind} station at {a0} ft queried at its own altitude gives ({d!r},{m!r}), own values ({st.density_ratio!r},{m_st!r})', 'key': None})
    a_own = 20.046796 * math.sqrt(st.temperature >> U.Kelvin) / FT        # speed of sound of air at the station's temperature (fps)
    if abs(m_st - a_own) / a_own > 1e-4:
        out.append({'msg': f'{kind} station at {a0} ft, air {st.temperature >> U.Celsius:.2f} C: its speed of sound is {m_st!r} fps, air at that temperature has {a_own!r}', 'key': None})
    lim_d, lim_m = lapse30(st.temperature >> U.Kelvin)
    if abs(off) <= 30.001:
        # inside / just across the shortcut: no more than the station's own 30-ft lapse away from its own values
        if st.density_ratio and abs(d / st.density_ratio - 1) > 1.1 * lim_d:
            out.append({'msg': f'{kind} station at {a0} ft: density ratio at offset {off} ft differs from the station value by {abs(d / st.density_ratio - 1):.3e}, 30-ft lapse is {lim_d:.3e}', 'key': None})
        if abs(m / m_st - 1) > 1.1 * lim_m:
            out.append({'msg': f'{kind} station at {a0} ft: speed of sound at offset {off} ft differs from the station value by {abs(m / m_st - 1):.3e}, 30-ft lapse is {lim_m:.3e}', 'key': None})
    if kind == 'std':
        o = pb.Atmo.icao(U.Foot(q))
        tol = 1e-4 + (1.1 * lim_d if abs(off) < 30 else 0)
        tol_m = 1e-4 + (1.1 * lim_m if abs(off) < 30 else 0)
        e_d = abs(d - o.density_ratio) / o.density_ratio
        e_m = abs(m - (o.mach >> U.FPS)) / (o.mach >> U.FPS)
        if e_d > tol or e_m > tol_m:
            out.append({'msg': f'standard station at {a0} ft predicts ({d!r},{m!r}) at {q} ft; a standard station created there has '
                               f'({o.density_ratio!r},{o.mach >> U.FPS!r}) (rel {e_d:.2e},{e_m:.2e})', 'key': None})
        # and against the independent ISA
        T, P, dr, a = isa(q)
        if abs(d - dr) / dr > 2e-4 + tol - 1e-4 or abs(m * FT - a) / a > 2e-4 + tol_m - 1e-4:
            out.append({'msg': f'standard station at {a0} ft predicts ({d!r},{m * FT!r} m/s) at {q} ft; ISA gives ({dr!r},{a!r})', 'key': None})
    return {'v': out, 'n': 1, 'nt': cell if off != 0 else None, 'obs': [kind, abs(off) < 30]}


def grid(cell):
    import py_ballisticcalc as pb
    U = pb.Unit
    tc, p_hpa, h = cell

    def dens(tc_, p_, h_):
        return pb.Atmo(U.Foot(0), U.hPa(p_), U.Celsius(tc_), h_).density_ratio

    d = dens(tc, p_hpa, h)
    out = []
    n = 1
    if not d > 0:
        out.append({'msg': f'density ratio {d} not positive at {tc} C {p_hpa} hPa humidity {h}', 'key': None})
    if p_hpa < 1100:
        n += 1
        if not dens(tc, p_hpa + 100, h) > d:
            out.append({'msg': f'density ratio does not rise with pressure at {tc} C, {p_hpa}->{p_hpa + 100} hPa, humidity {h}', 'key': None})
    if tc < 60:
        n += 1
        if not dens(tc + 10, p_hpa, h) < d:
            out.append({'msg': f'density ratio does not fall with temperature at {tc}->{tc + 10} C, {p_hpa} hPa, humidity {h}', 'key': None})
    if h < 1:
        n += 1
        if not dens(tc, p_hpa, h + 0.25) < d:
            out.append({'msg': f'density ratio does not fall with humidity {h}->{h + 0.25} at {tc} C, {p_hpa} hPa', 'key': None})
    if 0 < h:
        n += 1
        pct = dens(tc, p_hpa, h * 100)
        if pct != d and h != 1:   # 1 is ambiguous by documentation: treated as fraction 1 = 100 %
            out.append({'msg': f'humidity {h} (fraction) and {h * 100} (percent) give different densities {d!r} vs {pct!r}', 'key': None})
        if h == 1 and dens(tc, p_hpa, 100) != d:
            out.append({'msg': f'humidity 1 (fraction) and 100 (percent) give different densities', 'key': None})
    # humidity setter after construction is equivalent to the constructor
    a = pb.Atmo(U.Foot(0), U.hPa(p_hpa), U.Celsius(tc), 0)
    a.humidity = h
    n += 1
    if a.density_ratio != d:
        out.append({'msg': f'setting humidity {h} after construction gives density {a.density_ratio!r}, constructor gives {d!r}', 'key': None})
    # dry air at these conditions against the ideal gas law (CIPM compressibility < 1e-3)
    if h == 0:
        ideal = (p_hpa * 100) / (RS * (tc + 273.15)) / 1.225
        if abs(d - ideal) / ideal > 2e-3:
            out.append({'msg': f'dry density ratio {d!r} at {tc} C {p_hpa} hPa is {abs(d - ideal) / ideal:.2e} from the ideal gas value {ideal!r}', 'key': None})
    return {'v': out, 'n': n, 'nt': cell if (p_hpa < 1100 and tc < 60 and h < 1) else None}


def reject(cell):
    import py_ballisticcalc as pb
    h = cell
    out = []
    try:
        pb.Atmo(humidity=h)
        out.append({'msg': f'Atmo accepted humidity {h}', 'key': None})
    except ValueError:
        pass
    a = pb.Atmo.icao()
    before = (a.humidity, a.density_ratio)
    try:
        a.humidity = h
        out.append({'msg': f'humidity setter accepted {h}', 'key': None})
    except ValueError:
        pass
    if (a.humidity, a.density_ratio) != before:
        out.append({'msg': f'rejected humidity {h} still changed the atmosphere', 'key': None})
    return {'v': out, 'n': 2, 'nt': h}


def vacuum(cell):
    import py_ballisticcalc as pb
    U = pb.Unit
    a0, q = cell
    out = []
    for v in (pb.Vacuum(U.Foot(a0)), pb.Vacuum(U.Foot(a0), U.Celsius(-20))):
        d, m = v.get_density_factor_and_mach_for_altitude(q)
        if d != 0.0 or v.density_ratio != 0 or (v.pressure >> U.hPa) != 0:
            out.append({'msg': f'Vacuum at {a0} ft: density factor {d!r} at {q} ft (density_ratio {v.density_ratio!r}, pressure {v.pressure})', 'key': None})
        if not (m > 0 and math.isfinite(m)):
            out.append({'msg': f'Vacuum at {a0} ft: speed of sound {m!r} at {q} ft is not a positive finite number', 'key': None})
    return {'v': out[:2], 'n': 2, 'nt': cell if a0 != q else None}


HOPS = ['q_near', 'q100', 'q5000', 'h0', 'h50', 'h100pct', 'h_bad', 'mk_other', 'mk_bad']


def history(cell):
    """an atmosphere object is mutable (humidity setter): after ANY sequence of queries and humidity assignments it must predict exactly what a
    freshly built atmosphere with the same station values and the current humidity predicts (no stale derived values)"""
    import py_ballisticcalc as pb
    U = pb.Unit
    kind, a0, ops = cell
    st = _station(kind, a0) if kind != 'vac' else pb.Vacuum(U.Foot(a0), U.Celsius(5))
    out = []
    n = 0
    hum = st.humidity
    for k, op in enumerate(ops):
        if op == 'q_near':
            st.get_density_factor_and_mach_for_altitude(a0 + 10.0)
        elif op == 'q100':
            st.get_density_factor_and_mach_for_altitude(a0 + 100.0)
        elif op == 'q5000':
            st.get_density_factor_and_mach_for_altitude(a0 + 5000.0)
        elif op == 'mk_other':
            # other atmosphere objects come and go (a vacuum, a hot station): none of this object's business
            pb.Vacuum(U.Foot(200), U.Celsius(-3)).get_density_factor_and_mach_for_altitude(4000.0)
            pb.Atmo(U.Foot(3000), U.InHg(27), U.Fahrenheit(99), 80).get_density_factor_and_mach_for_altitude(9000.0)
        elif op == 'mk_bad':
            # somebody else's constructor call is rejected (humidity out of range): none of this object's business either
            try:
                pb.Atmo(U.Foot(100), U.InHg(29), U.Fahrenheit(50), 120)
                out.append({'msg': 'Atmo(humidity=120) accepted', 'key': None})
            except ValueError:
                pass
        elif op == 'h_bad':
            try:
                st.humidity = 101
                out.append({'msg': 'humidity 101 accepted', 'key': None})
            except ValueError:
                pass
        else:
            hum = {'h0': 0.0, 'h50': 0.5, 'h100pct': 100}[op]
            st.humidity = hum
        if k != len(ops) - 1:
            # judged after the LAST operation only: building the reference objects is itself library activity that would disturb the history
            # (round 10: a class-level guard left set by a rejected constructor was cleared by the reference constructor); every prefix of
            # every history is a cell of its own, so nothing is lost
            continue
        if kind == 'vac':
            # a vacuum stays a vacuum whatever is done to the object: exactly zero density at the station and everywhere
            n += 1
            vals = [st.get_density_factor_and_mach_for_altitude(q)[0] for q in (a0, a0 + 10.0, a0 + 31.0, a0 + 5000.0, a0 - 500.0)] + [st.density_ratio]
            if any(v != 0 for v in vals):
                out.append({'msg': f'Vacuum at {a0} ft after {ops[:k + 1]}: density is no longer exactly zero ({vals})', 'key': None})
                break
            continue
        fresh = pb.Atmo(st.altitude, st.pressure, st.temperature, hum)
        n += 1
        if kind == 'std':
            # every request for a standard atmosphere gives an independent, standard one - whatever was done to earlier ones
            again = pb.Atmo.icao(U.Foot(a0))
            dr_isa = isa(a0)[2]
            if again is st or again.humidity != 0 or abs(again.density_ratio - dr_isa) / dr_isa > 1e-4:
                out.append({'msg': f'after {ops[:k + 1]} on one standard atmosphere, a NEW Atmo.icao({a0} ft) has humidity {again.humidity} and density ratio {again.density_ratio!r} (ISA {dr_isa!r})', 'key': None})
                break
        for q in (a0, a0 + 10.0, a0 + 31.0, a0 + 100.0, a0 + 5000.0, a0 - 500.0):
            got, exp = st.get_density_factor_and_mach_for_altitude(q), fresh.get_density_factor_and_mach_for_altitude(q)
            if kind == 'std' and hum == 0 and abs(q - a0) > 30:
                # absolute as well (the freshly built object lives in the same process as whatever the history did)
                T_, P_, dr_, a_ = isa(q)
                if abs(got[0] - dr_) / dr_ > 3e-4 or abs(got[1] * FT - a_) / a_ > 3e-4:
                    out.append({'msg': f'standard station at {a0} ft after {ops[:k + 1]}: prediction at {q} ft is ({got[0]!r}, {got[1] * FT!r} m/s), ISA gives ({dr_!r}, {a_!r})', 'key': None})
                    break
            if got != exp:
                out.append({'msg': f'{kind} station at {a0} ft after {ops[:k + 1]}: prediction at {q} ft is {got}, a freshly built atmosphere with the same values and humidity {hum} predicts {exp}', 'key': None})
                break
        if st.density_ratio != fresh.density_ratio:
            out.append({'msg': f'{kind} station at {a0} ft after {ops[:k + 1]}: density_ratio {st.density_ratio!r} differs from a freshly built atmosphere ({fresh.density_ratio!r})', 'key': None})
        if out:
            break
    return {'v': out[:2], 'n': n, 'nt': cell if len(ops) >= 2 else None}


def bare_lines(cell):
    """the same laws when station values are given as bare numbers (read in the preferred units: ft... yd, inHg, deg F by default) - zero included"""
    import py_ballisticcalc as pb
    U = pb.Unit
    p_inhg, h = cell
    temps = [-40, -20, -10, 0, 10, 20, 40, 60]
    out = []
    prev = None
    for t in temps:
        d = pb.Atmo(0, p_inhg, t, h).density_ratio
        e = pb.Atmo(U.Yard(0), U.InHg(p_inhg), U.Fahrenheit(t), h).density_ratio
        if d != e:
            out.append({'msg': f'Atmo(0, {p_inhg}, {t}, {h}) with bare numbers has density ratio {d!r}; the same values as explicit quantities (yd, inHg, deg F) give {e!r}', 'key': None})
        if prev is not None and not d < prev:
            out.append({'msg': f'density ratio does not fall with temperature along bare values ... {t - 10 if t <= 20 else t - 20} -> {t} F at {p_inhg} inHg, humidity {h}: {prev!r} -> {d!r}', 'key': None})
        prev = d
    a0 = pb.Atmo.icao(0, 0).temperature >> U.Fahrenheit
    if abs(a0 - 0.0) > 1e-9:
        out.append({'msg': f'Atmo.icao(0, 0): temperature {a0!r} F, bare 0 means 0 in the preferred unit', 'key': None})
    return {'v': out[:3], 'n': 2 * len(temps) + 1, 'nt': cell}


def sound(cell):
    """the three public speed-of-sound functions (by deg F in fps, by deg C and by K in m/s) are the ISA speed of sound at that temperature"""
    import math
    import py_ballisticcalc as pb
    tc = float(cell)
    T = tc + 273.15
    a = math.sqrt(1.4 * 287.05287 * T)
    out = []
    for name, v in (('machF', pb.Atmo.machF(tc * 9 / 5 + 32) * FT), ('machC', pb.Atmo.machC(tc)), ('machK', pb.Atmo.machK(T))):
        if not abs(v - a) / a <= 1e-4:
            out.append({'msg': f'Atmo.{name} at {tc} C gives {v!r} m/s, ISA speed of sound is {a!r} (1e-4 allowed)', 'key': None})
    return {'v': out, 'n': 3, 'nt': cell}


PARTS = {'sound': sound, 'bare_lines': bare_lines, 'isa': isa_cell, 'station': station, 'grid': grid, 'reject': reject, 'vacuum': vacuum, 'history': history}
OFFS = [0, 1, -1, 29.999, -29.999, 30, -30, 30.001, -30.001]


def plan(tier):
    step = 100 if tier == 'quick' else 25
    alts = list(range(-1400, 36001, step))
    st = []
    stations = [-1000, 0, 5000, 15000, 30000]
    for kind in ('std', 'hot', 'cold', 'frigid', 'torrid', 'powder'):
        for a0 in stations:
            qs = set(float(a0 + o) for o in OFFS)
            if kind == 'std' or tier == 'thorough':
                qs |= set(float(q) for q in range(-1400, 36001, 250))
            else:
                qs |= set(float(q) for q in range(-1400, 36001, 2500))
            for q in sorted(qs):
                st.append([kind, a0, q])
    gr = [[t, p, h] for t in range(-60, 61, 10) for p in range(500, 1101, 100) for h in (0, 0.25, 0.5, 0.75, 1)]
    vac = [[a0, float(q)] for a0 in stations for q in range(-1400, 36001, 2000 if tier == 'quick' else 250)]
    import itertools
    depth = 3 if tier == 'quick' else 4
    hs = [[kind, a0, list(ops)] for kind in ('std', 'hot', 'vac') for a0 in (0, 5000) for d in range(1, depth + 1) for ops in itertools.product(HOPS, repeat=d)]
    bl = [[p_, h_] for p_ in (25.0, 29.92, 31.0) for h_ in (0, 0.5, 80)]
    pref_sets = [{'temperature': 'Celsius'}, {'temperature': 'Kelvin', 'pressure': 'hPa', 'distance': 'Meter'}, {'temperature': 'Rankin', 'pressure': 'PSI', 'distance': 'Foot', 'velocity': 'MPS'}]
    alts = alts + [[h_, p_] for h_ in range(-1000, 36001, 1000 if tier == 'quick' else 250) for p_ in pref_sets]
    return [('sound', list(range(-60, 61, 5 if tier == 'quick' else 1))), ('bare_lines', bl), ('isa', alts), ('station', st), ('grid', gr), ('reject', [-1, -0.01, 100.01, 1e9, -1e-9, 101]), ('vacuum', vac), ('history', hs)]

"""C13 - a quantity's magnitude is immutable and comparisons follow magnitude.
Engine E2: explicit-state BFS to closure over (raw bits, display unit) of real quantity objects."""
import itertools

from mc.core import bits
from mc.ref import units as R

PID = 'C13'
# thread bodies (defined with engine E4, mc/checks/c10_sched.py) that exercise this property's code; explored after the parts below
SCHED_SETS = [('units||units', 'line')]
LEVEL = 'model_checking'
ENGINE = 'E2'
TECHNIQUE = 'explicit-state BFS to closure over the (magnitude bits, display unit) state of real quantity objects, invariants evaluated in every state and on every transition'
RULE = ('state = (IEEE bits of _value, _defined_units) of a real quantity (both __slots__, so the fingerprint is complete); '
        'transitions = every display-changing operation (<<, convert, Unit(q), PreferredUnits.<slot>(q), passing q into a '
        'library constructor/call) for every unit of the dimension plus one foreign unit, and every read (>>, get_in, '
        'unit_value, raw_value, float, str, repr, hash, six comparisons); BFS runs until no new state appears; '
        'non-trivial = a start value whose closure has more than one state; compare part: every pair of the pool in every '
        'pair of display units')
ASSUMPTIONS = ['start pool: five magnitudes (1, 3, 0.25, -2.5, 7 - for angles more than one turn in radians) built in every unit of every dimension (plus exactly equal pairs in different units)',
               'magnitudes outside the pool are not explored; closure makes the claim hold for operation sequences of any length over the pool']
LEVEL_TEXT = ('All display states reachable from each start value by any finite sequence of the listed operations are enumerated '
              '(closure of a finite state space), and the invariants are evaluated in each; so for the pool the property holds '
              'for operation sequences of every length, which unit tests cannot establish.')

MAGS = [1.0, 3.0, 0.25]
FOREIGN = {'distance': 'FPS', 'angular': 'Foot', 'temperature': 'Foot', 'weight': 'Foot', 'velocity': 'Foot',
           'pressure': 'Foot', 'energy': 'Foot'}
SLOTS = {'distance': ['distance', 'diameter', 'length', 'drop', 'sight_height', 'target_height', 'twist'],
         'angular': ['angular', 'adjustment'], 'temperature': ['temperature'], 'weight': ['weight', 'ogw'],
         'velocity': ['velocity'], 'pressure': ['pressure'], 'energy': ['energy']}


def U(name):
    from py_ballisticcalc.unit import Unit
    return Unit[name]


def _pass_ops(dim):
    """library calls that take the quantity as an argument: name -> fn(q)"""
    import py_ballisticcalc as pb
    ops = {}
    if dim == 'distance':
        ops['Weapon.sight_height'] = lambda q: pb.Weapon(sight_height=q)
        ops['Weapon.twist'] = lambda q: pb.Weapon(twist=q)
        ops['Atmo.altitude'] = lambda q: pb.Atmo(altitude=q)
        ops['Wind.until'] = lambda q: pb.Wind(pb.Unit.MPH(5), pb.Unit.Degree(90), q)
        ops['DragModel.dims'] = lambda q: pb.DragModel(0.3, pb.TableG7, pb.Unit.Grain(100), q, q)

        def fire(q):
            if not 12.0 <= q.raw_value <= 1200.0:
                return None
            shot = pb.Shot(pb.Weapon(pb.Unit.Inch(2)), pb.Ammo(pb.DragModel(0.3, pb.TableG7), pb.Unit.FPS(2500)))
            hr = pb.Calculator().fire(shot, q, q, extra_data=True)
            hr.danger_space(q, q)
            hr.get_at_distance(q)
            return hr
        ops['fire+danger_space'] = fire
    elif dim == 'angular':
        ops['Weapon.zero_elevation'] = lambda q: pb.Weapon(zero_elevation=q)
        ops['Wind.direction'] = lambda q: pb.Wind(pb.Unit.MPH(5), q)

        def shot(q):
            s = pb.Shot(pb.Weapon(pb.Unit.Inch(2)), pb.Ammo(pb.DragModel(0.3, pb.TableG7), pb.Unit.FPS(2500)),
                        look_angle=q, relative_angle=q, cant_angle=q)
            s.barrel_elevation, s.barrel_azimuth
            if abs(q.raw_value) <= 0.5:
                pb.Calculator().fire(s, pb.Unit.Foot(3), pb.Unit.Foot(1))
            return s
        ops['Shot.angles+fire'] = shot
        ops['Sight.click'] = lambda q: pb.Sight('FFP', None, q, q) if q.raw_value > 0 else None
    elif dim == 'temperature':
        ops['Atmo.temperature'] = lambda q: pb.Atmo(temperature=q, powder_t=q)
        ops['Ammo.powder_temp'] = lambda q: pb.Ammo(pb.DragModel(0.3, pb.TableG7), pb.Unit.FPS(2500), q,
                                                    0.01, True).get_velocity_for_temp(q)
    elif dim == 'weight':
        ops['DragModel.weight'] = lambda q: pb.DragModel(0.3, pb.TableG7, q, pb.Unit.Inch(0.3), pb.Unit.Inch(1))
    elif dim == 'velocity':
        ops['Ammo.mv'] = lambda q: pb.Ammo(pb.DragModel(0.3, pb.TableG7), q).get_velocity_for_temp(pb.Unit.Celsius(0))
        ops['Wind.velocity'] = lambda q: pb.Wind(q, pb.Unit.Degree(90)).vector
        ops['BCPoint.V'] = lambda q: pb.BCPoint(0.3, V=q) if q.raw_value > 0 else None
    elif dim == 'pressure':
        ops['Atmo.pressure'] = lambda q: pb.Atmo(pressure=q) if q.raw_value > 0 else None
    return ops


def closure(cell):
    """BFS to closure from one start value."""
    from py_ballisticcalc.unit import PreferredUnits
    from py_ballisticcalc.exceptions import UnitConversionError
    dim, u0n, m = cell
    units = [U(n) for n in R.DIMENSIONS[dim]]
    foreign = U(FOREIGN[dim])
    all_foreign = [U(n) for n, d in R.DIM_OF.items() if d != dim]
    u0 = U(u0n)
    passes = _pass_ops(dim)
    ops = ([('lshift', u.name) for u in units] + [('convert', u.name) for u in units] + [('call', u.name) for u in units]
           + [('pref', s, u.name) for s in SLOTS[dim] for u in units] + [('pass', k) for k in passes]
           + [('lshift', foreign.name)])

    def apply(q, op):
        if op[0] == 'lshift':
            q << U(op[1])
        elif op[0] == 'convert':
            q.convert(U(op[1]))
        elif op[0] == 'call':
            U(op[1])(q)
        elif op[0] == 'pref':
            setattr(PreferredUnits, op[1], U(op[2]))
            getattr(PreferredUnits, op[1])(q)
            PreferredUnits.defaults()
        elif op[0] == 'pass':
            passes[op[1]](q)

    def build(hist):
        q = u0(m)
        for op in hist:
            apply(q, op)
        return q

    # other quantities exist too: before anything is read from the quantity under test, quantities of EVERY dimension with the same magnitudes
    # (so also with the same raw numbers) are read in their own units - what one quantity was asked must not answer for another
    from mc.ref import units as _R
    for dname, us in _R.DIMENSIONS.items():
        for un in us:
            for mm in (m, 1.0, 3.0):
                try:
                    other = U(un)(mm)
                    for vn in us:
                        other >> U(vn)
                except Exception:   # noqa  (value not admissible in that unit)
                    pass
    q0 = u0(m)
    raw = bits(q0.raw_value)
    table = {u.name: bits(q0 >> u) for u in units}
    h0 = hash(q0)
    viol = []

    def state(q):
        return (bits(q.raw_value), int(q.units))

    def invariants(q, hist):
        """evaluated in every state; every read must also leave the state unchanged"""
        s0 = state(q)
        if s0[0] != raw:
            viol.append({'msg': f'{m} {u0n}: magnitude changed from bits {raw} to {s0[0]} after {hist}', 'key': None})
            return
        tab = {}
        for u in units:
            tab[u.name] = bits(q >> u)
            if bits(q.get_in(u)) != tab[u.name]:
                viol.append({'msg': f'{m} {u0n}: get_in and >> disagree in {u.name} after {hist}', 'key': None})
        if tab != table:
            bad = [k for k in tab if tab[k] != table[k]]
            viol.append({'msg': f'{m} {u0n}: value read in {bad} changed after {hist}', 'key': None})
        if hash(q) != h0:
            viol.append({'msg': f'{m} {u0n}: hash changed after {hist} (display unit {q.units!r})', 'key': None})
        if bits(float(q)) != raw or bits(q.raw_value) != raw:
            viol.append({'msg': f'{m} {u0n}: float()/raw_value differ from the magnitude after {hist}', 'key': None})
        own = q.units in units
        for what, fn in (('unit_value', lambda: q.unit_value), ('str', lambda: str(q)), ('repr', lambda: repr(q))):
            try:
                r = fn()
                if not own:
                    viol.append({'msg': f'{m} {u0n}: {what} yielded {r!r} while displayed in foreign unit {q.units!r}', 'key': None})
                elif what == 'unit_value' and bits(r) != table[q.units.name]:
                    viol.append({'msg': f'{m} {u0n}: unit_value differs from the value in {q.units!r} after {hist}', 'key': None})
            except UnitConversionError:
                if own:
                    viol.append({'msg': f'{m} {u0n}: {what} raised UnitConversionError in own unit after {hist}', 'key': None})
        for f in all_foreign:
            for what, fn in (('>>', lambda: q >> f), ('get_in', lambda: q.get_in(f))):
                try:
                    r = fn()
                    viol.append({'msg': f'{dim} quantity {m} {u0n} yielded {r!r} when read {what} {f!r}', 'key': None})
                except UnitConversionError:
                    pass
        # comparisons with plain numbers follow the magnitude
        x = q.raw_value
        import math as _m
        for other in (x, x + 1.0, x - 1.0, _m.nextafter(x, _m.inf), _m.nextafter(x, -_m.inf), x * (1 + 1e-12), x * (1 - 5e-10)):
            exp = (x == other, x != other, x < other, x <= other, x > other, x >= other)
            got = (q == other, q != other, q < other, q <= other, q > other, q >= other)
            if exp != got:
                viol.append({'msg': f'{m} {u0n} displayed in {q.units!r}: comparisons with number {other} gave {got}, magnitude says {exp}', 'key': None})
        if state(q) != s0:
            viol.append({'msg': f'{m} {u0n}: a read operation changed the state after {hist}', 'key': None})

    seen = {state(q0): []}
    frontier = [[]]
    invariants(q0, [])
    transitions = 0
    n_reads = 0
    while frontier:
        hist = frontier.pop(0)
        for op in ops:
            q = build(hist)
            if len(viol) < 20:
                invariants(q, hist)        # read everything BEFORE the operation too: a value remembered from an earlier read must not survive a conversion
            try:
                apply(q, op)
            except UnitConversionError:
                # e.g. passing a quantity displayed in a foreign unit into an API: allowed to raise, but not to change it
                pass
            except Exception:  # noqa
                if op[0] != 'pass':
                    raise
                # a library call may reject the VALUE (an atmosphere at 100 km, a temperature of 0 K): not this property's business;
                # what matters is that the quantity handed over is unchanged afterwards
            transitions += 1
            if len(viol) < 20:
                invariants(q, hist + [op])
            n_reads += 1
            s = state(q)
            if s not in seen:
                seen[s] = hist + [op]
                frontier.append(hist + [op])
            if len(seen) > 200:
                viol.append({'msg': f'state space of {m} {u0n} did not close (>200 states)', 'key': None})
                frontier = []
                break
    return {'v': viol[:5], 'n': transitions, 'states': len(seen), 'transitions': transitions, 'traces': transitions,
            'nt': [dim, u0n, m] if len(seen) > 1 else None, 'obs': len(seen),
            'sample': {'start': f'{m} {u0n}', 'reachable_display_states': sorted(U_.name if hasattr(U_, 'name') else str(U_) for U_ in [__import__('py_ballisticcalc').Unit(s_[1]) for s_ in seen]),
                       'operations_per_state': len(ops), 'longest_shortest_history': max(seen.values(), key=len)}}


def compare(cell):
    """all pairs of the pool x all pairs of display units: ==, <, ... and hash follow the base-unit magnitude"""
    dim = cell
    units = [U(n) for n in R.DIMENSIONS[dim]]
    pool = [(u, m) for u in units for m in MAGS]
    # exactly equal magnitudes expressed in different units
    equal_sets = {'distance': [('Yard', 1.0), ('Foot', 3.0), ('Inch', 36.0)], 'weight': [('Pound', 1.0), ('Grain', 7000.0)],
                  'temperature': [('Celsius', 100.0), ('Fahrenheit', 212.0)], 'angular': [('Degree', 180.0), ('OClock', 6.0)],
                  'velocity': [('MPS', 1.0), ('KMH', 3.6)], 'pressure': [('MmHg', 25.4), ('InHg', 1.0)],
                  'energy': [('FootPound', 1.0), ('FootPound', 1.0)]}
    pool += [(U(n), m) for n, m in equal_sets[dim]]
    # magnitudes that differ only in the last bits (equality and hashing must still tell them apart / agree with each other)
    import math as _m
    u_first = units[0]
    pool += [(u_first, _m.nextafter(3.0, 4.0)), (u_first, 3.0 * (1 + 1e-12)), (u_first, 3.0 * (1 - 5e-10)), (u_first, 0.1 + 0.2), (u_first, 0.3)]
    viol = []
    n = 0
    n_equal = 0
    for (ua, ma), (ub, mb) in itertools.combinations_with_replacement(pool, 2):
        for da, db in itertools.product(units, units):
            a, b = ua(ma), ub(mb)
            a << da
            b << db
            n += 1
            x, y = a.raw_value, b.raw_value
            exp = (x == y, x != y, x < y, x <= y, x > y, x >= y)
            got = (a == b, a != b, a < b, a <= b, a > b, a >= b)
            if exp != got:
                viol.append({'msg': f'{ma} {ua.name} (shown in {da.name}) vs {mb} {ub.name} (shown in {db.name}): comparisons {got}, magnitudes say {exp}', 'key': None})
            if x == y:
                n_equal += 1
                if hash(a) != hash(b):
                    viol.append({'msg': f'equal quantities {ma} {ua.name} (shown in {da.name}) and {mb} {ub.name} (shown in {db.name}) hash differently', 'key': None})
            if len(viol) > 5:
                break
        if len(viol) > 5:
            break
    return {'v': viol[:5], 'n': n, 'states': len(pool) * len(units), 'transitions': n, 'traces': n,
            'nt': [dim, 'pairs'] if n_equal > len(pool) else None, 'obs': n_equal}


PARTS = {'closure': closure, 'compare': compare}


def plan(tier):
    mags = MAGS + [-2.5, 7.0, 400.0] if tier == 'quick' else MAGS + [0.0, -2.5, 1e-3, 7.0, 100.0, 400.0]       # 7 and 100 rad, 400 deg / o'clock: more than one turn (the constructor wraps; whatever it stored stays what it is)
    cl = [[dim, u, m] for dim, us in R.DIMENSIONS.items() for u in us for m in mags]
    return [('closure', cl), ('compare', list(R.DIMENSIONS))]

"""C02 - zeroing returns an elevation that actually hits the point of aim.
Engine E1: full product look x distance x stored zero x wind, plus one further deviation over load / sight height."""
import itertools
import math

from mc.core import bits
from mc.world import make_shot, make_calc

PID = 'C02'
# thread bodies (defined with engine E4, mc/checks/c10_sched.py) that exercise this property's code; explored after the parts below
SCHED_SETS = [('zero||zero', 'call'), ('zero||fire(G1)', 'call')]
LEVEL = 'exploration'
ENGINE = 'E1'
TECHNIQUE = 'bounded exhaustive enumeration (full product look angle x zero distance x stored zero x wind, plus all single deviations over load and sight height); each cell zeroes with the real solver, fires back and measures the miss at the aim point'
RULE = ('cells = look {-55,-30,-10,-1,0,1,10,30,55 deg} x zero distance {10,25,100,300,600,1000,1800 yd} x stored zero {0,10 MOA,-30 MOA,3 deg,20 deg} x wind '
        '{none,cross 15 mph,tail 20,head 20,three segments with boundaries short of the zero distance} for the baseline load (quick: two stored zeros, wind on a sub-grid), plus one further deviation over '
        'load {G1 .365/2600, pellet G1 .03/900 fps} and sight height {3.2,0,-1 in}; domain = the same shot fired along the sight line reaches '
        'x = d cos(look) without a range error; non-trivial = in-domain cell with look != 0 or wind or a non-zero stored zero')
ASSUMPTIONS = ['fail cells (iteration cap 1-2 from a cold start, targets far beyond reach) check the error / stored-zero clauses', '"one integration step of travel" = the configured maximum step (0.5 ft) (lenient reading)',
               'out-of-domain cells may raise any error or return an angle that meets the bound',
               'grid values only']

LOOKS = [-55.0, -30.0, -10.0, -1.0, 0.0, 1.0, 10.0, 30.0, 55.0]
DISTS = [10.0, 25.0, 100.0, 300.0, 600.0, 1000.0, 1800.0, 3000.0]
STORED = [0.0, 10 / 60, -0.5, 3.0, 20.0]
WINDS = ['none', 'cross15', 'tail', 'head', 'seg3']
LOADS = {'base': {}, 'g1': {'dm': 'G1', 'bc': 0.365, 'mv': 2600.0}, 'pellet': {'dm': 'G1', 'bc': 0.03, 'mv': 900.0},
         'hot': {'atmo': 'hot'}, 'alt5k_multi': {'atmo': 'icao5k', 'dm': 'multi', 'bc': 0.25},
         'alt12k': {'atmo': [12000.0, 19.03, 16.2, 0]}}      # a station at 12000 ft: aim points far below the muzzle are still far above every limit
ACC = 0.000005
MAX_STEP = 0.5


def zero(cell):
    import py_ballisticcalc as pb
    U = pb.Unit
    look, d_yd, stored, wind, load, sh = cell[:6]
    cfg = cell[6] if len(cell) > 6 else None
    spec = dict(LOADS[load], look=look, zero=stored, wind=wind, sh=sh)
    calc = make_calc(cfg)
    x = d_yd * 3.0 * math.cos(math.radians(look))
    # domain predicate: launched along the sight line, does it reach x within the limits ?
    flat = make_shot(dict(spec, zero=0.0))
    try:
        calc.fire(flat, U.Foot(x), U.Foot(x))
        in_domain = True
    except pb.RangeError:
        in_domain = False
    shot = make_shot(spec)
    before = bits(shot.weapon.zero_elevation.raw_value)
    out = []
    label = f'look {look} deg, zero at {d_yd} yd, stored zero {stored} deg, wind {wind}, load {load}, sight {sh} in'
    try:
        z = calc.set_weapon_zero(shot, U.Yard(d_yd))
    except Exception as e:  # noqa
        if bits(shot.weapon.zero_elevation.raw_value) != before:
            out.append({'msg': f'{label}: failed zeroing ({type(e).__name__}) changed the stored zero', 'key': None})
        if in_domain and not cfg:
            key = None
            if isinstance(e, pb.ZeroFindingError) and e.zero_finding_error <= 4 * ACC:
                # known finding: linear convergence of the fixed-point iteration where the trajectory falls steeply at the aim point
                try:
                    probe = make_shot(spec)
                    probe.weapon.zero_elevation = U.Radian((e.last_barrel_elevation >> U.Radian) - math.radians(look))
                    pr = [r for r in calc.fire(probe, U.Foot(x), U.Foot(x)).trajectory if r.flag & 8][-1]
                    if abs(math.tan((pr.angle >> U.Radian) - math.radians(look))) > 0.3:
                        key = 'zero-near-max-range'
                except pb.RangeError:
                    pass
            if isinstance(e, pb.RangeError):
                # known finding: the iteration starts from the stored zero; if THAT trajectory cannot reach the distance the error propagates
                try:
                    calc.fire(make_shot(spec), U.Foot(x), U.Foot(x))
                    # known finding: the start is fine, but the undamped update overshoots AWAY from the sight line, beyond the stored zero, to an
                    # elevation from which the distance cannot be reached (launch angle of the error's partial trajectory = the failing iterate)
                    part = getattr(e, 'incomplete_trajectory', None) or []
                    if part:
                        it = (part[0].angle >> U.Degree) - look
                        if abs(it) > abs(stored) + 1e-6 and it * stored > 0:
                            key = 'zero-overshoot-unreachable-iterate'
                except pb.RangeError:
                    key = 'zero-bad-stored-start'
            out.append({'msg': f'{label}: target is within reach along the sight line but zeroing failed with {type(e).__name__}: {str(e)[:80]}', 'key': key})
        return {'v': out, 'n': 2, 'nt': cell if (in_domain or cfg) else None, 'obs': ['error', type(e).__name__, in_domain], 'vac': not in_domain and not out and not cfg}
    if bits(shot.weapon.zero_elevation.raw_value) != bits(z.raw_value):
        out.append({'msg': f'{label}: returned elevation differs from the stored zero', 'key': None})
    # fire back with the returned zero and no hold-over
    ratio = None
    try:
        rows = calc.fire(shot, U.Foot(x), U.Foot(x)).trajectory
        at = [r for r in rows if r.flag & 8 and abs((r.distance >> U.Foot) - x) <= 1e-9 * max(1.0, x)]
        if not at:
            if in_domain:
                out.append({'msg': f'{label}: trajectory fired with the returned zero has no row at the aim distance {x!r} ft', 'key': None})
        else:
            p = at[-1]
            td = abs(p.target_drop >> U.Foot)
            slope = abs(math.tan((p.angle >> U.Radian) - math.radians(look)))
            bound = ACC + MAX_STEP * slope + 1e-9
            ratio = td / bound
            if td > bound:
                out.append({'msg': f'{label}: returned {z >> U.Degree!r} deg but the trajectory is {td * 12:.4f} in from the sight line at the aim point '
                                   f'(allowed {bound * 12:.4f} in = accuracy + one step x slope)', 'key': None, 'miss_ft': td, 'bound_ft': bound})
    except pb.RangeError as e:
        out.append({'msg': f'{label}: zeroing returned {z >> U.Degree!r} deg but the shot fired with it does not reach the aim point ({e.reason})', 'key': None})
    nontrivial = in_domain and (look != 0 or wind != 'none' or stored != 0)
    return {'v': out, 'n': 3, 'nt': cell if nontrivial else None, 'obs': ['angle', in_domain],
            'extra': {'max_miss_over_bound': ratio} if ratio is not None and not out else {}}


def sequence(cell):
    """one calculator zeroes a whole series of distances (a range day): every one of them is a zeroing of its own - same oracle as the zero part,
    cell by cell, with the calculator that has done all the earlier ones"""
    import py_ballisticcalc as pb
    U = pb.Unit
    look, dists, load = cell
    calc = make_calc(None)
    out = []
    n = 0
    for rnd in range(1):
        for d_yd in dists:
            shot = make_shot(dict(LOADS[load], look=look, zero=0.0, wind='none', sh=2.0))
            x = d_yd * 3.0 * math.cos(math.radians(look))
            n += 1
            try:
                calc.set_weapon_zero(shot, U.Yard(d_yd))
                p = [r for r in calc.fire(shot, U.Foot(x), U.Foot(x)).trajectory if r.flag & 8][-1]
                td = abs(p.target_drop >> U.Foot)
                bound = ACC + MAX_STEP * abs(math.tan((p.angle >> U.Radian) - math.radians(look))) + 1e-9
                if td > bound:
                    out.append({'msg': f'look {look} deg, zero no. {n} of one calculator at {d_yd} yd: {td * 12:.4f} in from the sight line (allowed {bound * 12:.4f} in)', 'key': None})
            except Exception as e:  # noqa
                fresh_ok = True
                try:
                    make_calc(None).set_weapon_zero(make_shot(dict(LOADS[load], look=look, zero=0.0, wind='none', sh=2.0)), U.Yard(d_yd))
                except Exception:  # noqa
                    fresh_ok = False
                if fresh_ok:
                    out.append({'msg': f'look {look} deg: zero no. {n} of one calculator at {d_yd} yd failed with {type(e).__name__} ({str(e)[:60]}) although a fresh calculator zeroes it', 'key': None})
            if out:
                return {'v': out, 'n': n, 'nt': cell}
    return {'v': out, 'n': n, 'nt': cell}


EDITS = ('sight', 'mv', 'wind', 'humid', 'look', 'bc', 'atmo')


def rezero(cell):
    """one calculator, ONE set of argument objects: zero, edit the set-up IN PLACE, zero again at the same distance - every zeroing is a zeroing
    of the set-up as it is now (same oracle as the zero part); all sequences of <= 2 (thorough 3) edits"""
    import py_ballisticcalc as pb
    U = pb.Unit
    look, d_yd, edits = cell
    calc = make_calc(None)
    shot = make_shot(dict(LOADS['base'], look=look, zero=0.0, wind='none', sh=2.0))
    out = []
    n = 0
    for k in range(len(edits) + 1):
        if k:
            e = edits[k - 1]
            if e == 'sight':
                shot.weapon.sight_height = U.Inch((shot.weapon.sight_height >> U.Inch) + 2.0)
            elif e == 'mv':
                shot.ammo.mv = U.FPS((shot.ammo.mv >> U.FPS) - 350.0)
            elif e == 'wind':
                shot.winds = [pb.Wind(U.MPH(30), U.Degree(0 if len(shot.winds) % 2 else 180), U.Yard(50 * k)), pb.Wind(U.MPH(10), U.Degree(90))]
            elif e == 'humid':
                shot.atmo.humidity = 100 if shot.atmo.humidity == 0 else 0
            elif e == 'look':
                shot.look_angle = U.Degree((shot.look_angle >> U.Degree) + 7.0)
            elif e == 'bc':
                shot.ammo.dm.BC = shot.ammo.dm.BC * 0.7
            elif e == 'atmo':
                shot.atmo = pb.Atmo(U.Foot(6000), U.InHg(24.0), U.Fahrenheit(20), 50)
        lk = shot.look_angle >> U.Degree
        x = d_yd * 3.0 * math.cos(math.radians(lk))
        n += 1
        calc.set_weapon_zero(shot, U.Yard(d_yd))
        p = [r for r in calc.fire(shot, U.Foot(x), U.Foot(x)).trajectory if r.flag & 8][-1]
        td = abs(p.target_drop >> U.Foot)
        bound = ACC + MAX_STEP * abs(math.tan((p.angle >> U.Radian) - math.radians(lk))) + 1e-9
        if td > bound:
            out.append({'msg': f'look {look} deg, {d_yd} yd: after zeroing and the in-place edits {list(edits[:k])}, zeroing again leaves the trajectory {td * 12:.4f} in from the sight line at the aim point (allowed {bound * 12:.4f} in)', 'key': None})
            break
    return {'v': out, 'n': n, 'nt': cell if edits else None}


PARTS = {'zero': zero, 'fail': zero, 'sequence': sequence, 'rezero': rezero}


def plan(tier):
    cells = []
    if tier == 'quick':
        for look, d, st in itertools.product(LOOKS, DISTS[:6], [0.0, 3.0]):
            cells.append([look, d, st, 'none', 'base', 2.0])
        for look, d, w in itertools.product([-30.0, 0.0, 10.0, 55.0], [25.0, 300.0], WINDS[1:]):
            if w == 'seg3':
                d = {25.0: 100.0, 300.0: 300.0}[d]      # boundaries at 60/150/400 yd must lie short of the zero distance
            cells.append([look, d, 10 / 60, w, 'base', 2.0])
        for look, d in itertools.product([-10.0, 0.0, 30.0], [100.0, 600.0]):
            for load in ('g1', 'pellet', 'hot', 'alt5k_multi'):
                cells.append([look, d if load != 'pellet' else d / 10, 0.0, 'none', load, 2.0])
            for sh in (3.2, 0.0, -1.0):
                cells.append([look, d, 0.0, 'none', 'base', sh])
        for look in (0.0, 30.0):
            cells.append([look, 1800.0, -0.5, 'none', 'base', 2.0])
        # the hard corner: steep sight line x long distance x a stored zero that is far off (the search is then convergent but not monotone)
        for look, d, st in itertools.product([55.0, -55.0, 30.0], [1000.0, 1800.0, 3000.0], [20.0, -0.5]):
            cells.append([look, d, st, 'none', 'base', 2.0])
        cells.append([55.0, 3000.0, 20.0, 'head', 'base', 2.0])     # known finding zero-overshoot-unreachable-iterate
        cells.append([55.0, 3000.0, 20.0, 'tail', 'base', 2.0])
    else:
        for look, d, st, w in itertools.product(LOOKS, DISTS, STORED, WINDS):
            cells.append([look, d, st, w, 'base', 2.0])
        for look, d, st in itertools.product(LOOKS, DISTS, [0.0, 3.0]):
            for load in ('g1', 'pellet', 'hot', 'alt5k_multi'):
                cells.append([look, d if load != 'pellet' else d / 10, st, 'none', load, 2.0])
            for sh in (3.2, 0.0, -1.0):
                cells.append([look, d, st, 'none', 'base', sh])
    # attempts that must fail (iteration cap too low from a cold start, or target far out of reach): an error, never an angle that misses,
    # and the stored zero untouched
    fails = []
    for look, st in itertools.product([-30.0, 0.0, 10.0, 55.0], STORED):
        for d in (100.0, 600.0):
            fails.append([look, d, st, 'none', 'base', 2.0, {'cMaxIterations': 1}])
            fails.append([look, d, st, 'cross15', 'base', 2.0, {'cMaxIterations': 2, 'cZeroFindingAccuracy': 1e-9}])
        fails.append([look, 9000.0, st, 'none', 'base', 2.0])
        fails.append([look, 400.0, st, 'none', 'pellet', 2.0])
    # far below a high station (the aim point is 1500-2700 ft under the muzzle, the ground limits are 10000 ft further down)
    for look, d in ((-25.0, 2000.0), (-40.0, 1500.0), (-30.0, 1000.0), (30.0, 1000.0)):
        cells.append([look, d, 0.0, 'none', 'alt12k', 2.0])
    seqs = [[look, [100.0, 200.0, 300.0, 400.0, 500.0, 600.0, 700.0, 800.0, 100.0, 300.0, 500.0, 150.0], 'base'] for look in (0.0, 10.0, -30.0)]
    rz = [[look, d, list(e)] for look in (0.0, 10.0) for d in (300.0, 600.0) for L in range(0, 3 if tier == 'quick' else 4) for e in itertools.product(EDITS, repeat=L)]
    return [('zero', cells), ('fail', fails), ('sequence', seqs), ('rezero', rz)]

"""C20 - trajectory look-ups return the first row satisfying the query.
Engine E1, exhaustive over all small synthetic trajectories (every row list up to a length over a tiny value alphabet)."""
import itertools
import math

PID = 'C20'
# thread bodies (defined with engine E4, mc/checks/c10_sched.py) that exercise this property's code; explored after the parts below
SCHED_SETS = [('lookup||lookup', 'call'), ('lookupsh||lookupsh', 'call')]
LEVEL = 'model_checking'
ENGINE = 'E1'
TECHNIQUE = 'bounded exhaustive enumeration of all trajectories up to length n over a 4-value alphabet x all queries, each look-up compared with a sequential scan reference model'
RULE = ('cells = every non-decreasing (time, distance) row list of length 0..5 over {0,1,2,3} (repeats included; thorough: time and '
        'distance patterns chosen independently, length 0..4); each cell asks every query in {0,.5,..,3.5} of every look-up '
        '(index_at_distance, get_at_distance, find_index_of_point_for_distance, find_time_for_distance_in_shot, find_index_for_time_point '
        'strict and nearest with 4 deviations) in 3 units; apex: every strictly single-peaked height sequence of length <= 7 over 1..7 '
        '(two-point plateau at the peak allowed) and length 0; real: three real extra-data trajectories queried at, between and beyond rows; '
        'non-trivial = a row list with at least two rows')
ASSUMPTIONS = ['row values outside the alphabet are represented by their order pattern only (look-ups depend on comparisons, which the alphabet exhausts for n<=5)',
               'among rows with equal times any may be returned by the nearest-time variant']
LEVEL_TEXT = ('Every row list up to the bound is enumerated and every query class (below, on, between, beyond) is asked; the reference '
              'model is the sequential scan the statement names; states = distinct row lists, transitions = look-ups compared.')

VALS = (0, 1, 2, 3)
QUERIES = [x / 2 for x in range(0, 8)] + [math.nextafter(float(k), math.inf) for k in (0, 1, 2, 3)] + [math.nextafter(float(k), -math.inf) for k in (1, 2, 3)]
DEVS = (0, 0.4, 0.5, 1)


def _row(t, d, h=0.0, flag=8):
    import py_ballisticcalc as pb
    A, Z = pb.Unit.Radian(0), pb.Unit.Foot(0)
    return pb.TrajectoryData(float(t), pb.Unit.Meter(d), pb.Unit.FPS(1000), 1.0, pb.Unit.Meter(h), pb.Unit.Foot(0), A, Z, A,
                             pb.Unit.Meter(d), A, 0.0, 0.0, pb.Unit.FootPound(0), pb.Unit.Pound(0), flag)


def _check_lookups(rows, queries, units, out, label):
    """all look-ups on one trajectory vs the sequential scan; returns number of look-ups compared"""
    import py_ballisticcalc as pb
    from py_ballisticcalc import helpers as H
    hr = pb.HitResult(None, rows, True)
    n = 0

    def bad(msg):
        if len(out) < 5:
            out.append({'msg': f'{label}: {msg}', 'key': None})

    def call(fn, *a):
        try:
            return fn(*a)
        except Exception as e:  # noqa
            return ('EXC', type(e).__name__, isinstance(e, ArithmeticError))

    for q in queries:
        for un in units:
            u = pb.Unit[un]
            qu = pb.Unit.Meter(q) >> u
            exp = next((i for i, r in enumerate(rows) if (r.distance >> u) >= qu), -1)
            n += 4
            got = call(H.find_index_of_point_for_distance, hr, qu, u)
            if got != exp:
                bad(f'find_index_of_point_for_distance({qu} {un}) = {got}, scan finds {exp}')
            t = call(H.find_time_for_distance_in_shot, hr, qu, u)
            if exp < 0:
                if not (isinstance(t, float) and math.isnan(t)):
                    bad(f'find_time_for_distance_in_shot({qu} {un}) = {t}, expected NaN (no row qualifies)')
            elif t != rows[exp].time:
                bad(f'find_time_for_distance_in_shot({qu} {un}) = {t}, scan finds {rows[exp].time}')
            d = u(qu)
            exp_r = next((i for i, r in enumerate(rows) if r.distance.raw_value >= d.raw_value), -1)
            got = call(hr.index_at_distance, d)
            if got != exp_r:
                bad(f'index_at_distance({qu} {un}) = {got}, scan finds {exp_r}')
            got = call(hr.get_at_distance, d)
            if exp_r < 0:
                if not (isinstance(got, tuple) and got[:1] == ('EXC',) and got[2]):
                    bad(f'get_at_distance({qu} {un}) beyond the trajectory gave {got}, expected an arithmetic error')
            elif got is not rows[exp_r]:
                bad(f'get_at_distance({qu} {un}) returned another row than the scan (index {exp_r})')
        # time look-ups
        expt = next((i for i, r in enumerate(rows) if r.time >= q), -1)
        # mode and deviation omitted: the documented defaults are the strict mode and a deviation of 1 s
        got_default = call(H.find_index_for_time_point, hr, q)
        got = call(H.find_index_for_time_point, hr, q, True)
        if got_default != got:
            bad(f'find_index_for_time_point({q}) with the mode omitted = {got_default}, with strictly_bigger_or_equal=True = {got} (the documented default)')
        n += 1
        if got != expt:
            bad(f'find_index_for_time_point({q}, strict) = {got}, scan finds {expt}')
        for dev in DEVS:
            got = call(H.find_index_for_time_point, hr, q, False, dev)
            n += 1
            if rows:
                m = min(abs(r.time - q) for r in rows)
                if m > dev:
                    ok = got == -1
                    want = -1
                else:
                    cands = [i for i, r in enumerate(rows) if abs(r.time - q) == m]
                    tmin = min(rows[i].time for i in cands)
                    ok = isinstance(got, int) and not isinstance(got, bool) and got in cands and rows[got].time == tmin
                    want = [i for i in cands if rows[i].time == tmin]
            else:
                ok = got == -1
                want = -1
            if not ok:
                bad(f'find_index_for_time_point({q}, nearest, deviation {dev}) = {got}, expected {want}')
    return n


def lookup(cell):
    ts, ds = cell
    rows = [_row(t, d) for t, d in zip(ts, ds)]
    out = []
    n = _check_lookups(rows, QUERIES, ('Meter', 'Foot', 'Yard'), out, f'times={ts} distances={ds}')
    return {'v': out, 'n': n, 'states': 1, 'transitions': n, 'traces': 1, 'nt': cell if len(ts) >= 2 else None,
            'obs': [len(ts), len(set(ts)), len(set(ds))]}


def negative(cell):
    import py_ballisticcalc as pb
    from py_ballisticcalc import helpers as H
    ts = cell
    hr = pb.HitResult(None, [_row(t, t) for t in ts], True)
    out = []
    for args in ((-1.0, True, 1), (-0.5, False, 1), (1.0, False, -0.1), (1.0, True, -1)):
        try:
            r = H.find_index_for_time_point(hr, *args)
            out.append({'msg': f'find_index_for_time_point{args} on times {ts} returned {r} instead of the documented ValueError', 'key': None})
        except ValueError:
            pass
    return {'v': out, 'n': 4, 'nt': cell, 'states': 1, 'transitions': 4, 'traces': 1}


def apex(cell):
    """cell = [peak_index, length]: all strictly unimodal sequences with that shape"""
    from py_ballisticcalc import helpers as H
    import py_ballisticcalc as pb
    peak, L, plateau = cell
    out = []
    n = 0
    if L == 0:
        r = H.find_index_of_apex_in_points([])
        r2 = H.find_index_of_apex_point(pb.HitResult(None, [], True))
        if r != -1 or r2 != -1:
            out.append({'msg': f'apex of an empty trajectory = {r}/{r2}, documented -1', 'key': None})
        return {'v': out, 'n': 2, 'nt': None, 'states': 1, 'transitions': 2, 'traces': 1}
    n_up, n_down = peak, L - peak - 1 - (1 if plateau else 0)
    if n_down < 0:
        return {'v': [], 'n': 0, 'vac': True}
    for up in itertools.combinations(range(1, 8), n_up):
        for down in itertools.combinations(range(1, 8), n_down):
            hs = list(up) + [9] + ([9] if plateau else []) + list(reversed(down))
            ok = {peak, peak + 1} if plateau else {peak}
            # the highest row is the highest row, whatever event flags the rows carry (a sight-line crossing can come before the summit)
            for fl in ({}, {1: 2}, {0: 1, 2: 2}, {1: 4}, {0: 3}, {len(hs) - 1: 2}):
                rows = [_row(i, i, h, 8 | fl.get(i, 0)) for i, h in enumerate(hs)]
                n += 1
                got = H.find_index_of_apex_in_points(rows)
                got2 = H.find_index_of_apex_point(pb.HitResult(None, rows, True))
                if got not in ok or got2 not in ok:
                    if len(out) < 3:
                        out.append({'msg': f'apex of heights {hs} (event flags at {fl}) = {got}/{got2}, highest row is {sorted(ok)}', 'key': None})
    return {'v': out, 'n': 2 * n, 'nt': cell if L >= 3 else None, 'states': n, 'transitions': 2 * n, 'traces': n, 'obs': [peak == 0, peak == L - 1]}


def real(cell):
    import py_ballisticcalc as pb
    from mc.world import make_shot
    spec, rng_yd, step_yd = cell[:3]
    shot = make_shot(spec)
    calc0 = pb.Calculator()
    if len(cell) > 3:
        calc0.set_weapon_zero(shot, pb.Unit.Yard(cell[3]))
    hr = calc0.fire(shot, pb.Unit.Yard(rng_yd), pb.Unit.Yard(step_yd), extra_data=True)
    rows = hr.trajectory
    out = []
    ds = [r.distance >> pb.Unit.Meter for r in rows]
    qs = []
    for a, b in zip(ds, ds[1:]):
        qs += [a, (a + b) / 2]
    qs += [ds[-1], ds[-1] + 1.0, ds[-1] * 2]
    # distance queries via the same machinery (time queries use seconds: take the row times)
    n = _check_lookups(rows, [], (), out, 'real')
    from py_ballisticcalc import helpers as H
    for q in qs:
        for un in ('Meter', 'Yard', 'Foot'):
            u = pb.Unit[un]
            qu = pb.Unit.Meter(q) >> u
            exp = next((i for i, r in enumerate(rows) if (r.distance >> u) >= qu), -1)
            got = H.find_index_of_point_for_distance(hr, qu, u)
            n += 2
            if got != exp:
                out.append({'msg': f'real trajectory: find_index_of_point_for_distance({qu} {un}) = {got}, scan finds {exp}', 'key': None})
            d = u(qu)
            exp_r = next((i for i, r in enumerate(rows) if r.distance.raw_value >= d.raw_value), -1)
            if hr.index_at_distance(d) != exp_r:
                out.append({'msg': f'real trajectory: index_at_distance({qu} {un}) differs from the scan ({exp_r})', 'key': None})
    ts = [r.time for r in rows]
    for a, b in zip(ts, ts[1:] + [ts[-1] + 1.0]):
        for q in (a, (a + b) / 2):
            n += 2
            exp = next((i for i, r in enumerate(rows) if r.time >= q), -1)
            got = H.find_index_for_time_point(hr, q, True)
            if got != exp:
                out.append({'msg': f'real trajectory: find_index_for_time_point({q}, strict) = {got}, scan finds {exp}', 'key': None})
            got = H.find_index_for_time_point(hr, q, False, 10.0)
            m = min(abs(t - q) for t in ts)
            if not (0 <= got < len(ts) and abs(ts[got] - q) == m):
                out.append({'msg': f'real trajectory: nearest time to {q} = row {got}, not a minimiser', 'key': None})
    # apex of the real arc (strictly single-peaked in height by construction of the shots)
    hs = [r.height.raw_value for r in rows]
    pk = max(range(len(hs)), key=lambda i: hs[i])
    unimodal = all(hs[i] < hs[i + 1] for i in range(pk)) and all(hs[i] > hs[i + 1] for i in range(pk, len(hs) - 1))
    if unimodal:
        got = H.find_index_of_apex_point(hr)
        n += 1
        if got != pk:
            out.append({'msg': f'real trajectory: apex index {got}, highest row {pk}', 'key': None})
    return {'v': out[:4], 'n': n, 'nt': cell, 'states': 1, 'transitions': n, 'traces': 1, 'obs': [unimodal, len(rows)]}


def reuse(cell):
    """the trajectory as it is WHEN THE LOOK-UP IS MADE: the same list object is looked up, refilled in place with other rows of the same length,
    and looked up again; and a second result object is looked up after the first (nothing may be remembered between look-ups)"""
    ts_a, ts_b = cell
    out = []
    rows = [_row(t, t) for t in ts_a]
    n = _check_lookups(rows, QUERIES, ('Meter',), out, f'first contents times={ts_a}')
    rows[:] = [_row(t, t) for t in ts_b]            # same list object, same length, different rows
    n += _check_lookups(rows, QUERIES, ('Meter',), out, f'list refilled in place: times={ts_a} -> {ts_b}')
    other = [_row(t, t) for t in ts_a]
    n += _check_lookups(other, QUERIES, ('Meter',), out, f'another trajectory after the first: times={ts_a}')
    return {'v': out, 'n': n, 'states': 3, 'transitions': n, 'traces': 1, 'nt': cell}


FLAGS = (8, 1, 2, 4, 9, 12, 3)      # RANGE, ZERO_UP, ZERO_DOWN, MACH, ZERO_UP|RANGE, MACH|RANGE, ZERO_UP|ZERO_DOWN
SPEEDS = (900.0, 600.0, 300.0)


def flagsearch(cell):
    """the remaining search helpers (by event flag, by speed, by an arbitrary condition): the first row, in order, that satisfies the query -
    what a sequential scan finds - and -1 when none does; every flag sequence of length <= 4 (thorough 5) x every speed pattern of a small set"""
    import py_ballisticcalc as pb
    from py_ballisticcalc import helpers as H
    flags, speeds = cell
    rows = []
    for i, (f, v) in enumerate(zip(flags, speeds)):
        r = _row(i, i, 0.0, f)
        rows.append(r._replace(velocity=pb.Unit.MPS(v)))
    hr = pb.HitResult(None, rows, True)
    out = []
    n = 0

    def scan(pred):
        return next((i for i, r in enumerate(rows) if pred(r)), -1)

    def cmp(name, got, exp):
        nonlocal n
        n += 1
        if got != exp and len(out) < 4:
            out.append({'msg': f'rows with flags {flags} and speeds {speeds} m/s: {name} returned {got!r}, a sequential scan finds {exp!r}', 'key': None})
    cmp('find_mach_point_index', H.find_mach_point_index(hr), scan(lambda r: r.flag & 4))
    cmp('find_touch_point_index', H.find_touch_point_index(hr), scan(lambda r: r.flag & 2))
    cmp('find_index_of_point_with_flag()', H.find_index_of_point_with_flag(hr), scan(lambda r: r.flag & 2))
    for fl in (1, 2, 4, 8):
        cmp(f'find_index_of_point_with_flag({fl})', H.find_index_of_point_with_flag(hr, fl), scan(lambda r: r.flag & fl))
    for q in (1000.0, 900.0, 750.0, 600.0, 300.0, 100.0):
        cmp(f'find_velocity_less_than_index({q} m/s)', H.find_velocity_less_than_index(hr, q), scan(lambda r: (r.velocity >> pb.Unit.MPS) < q))
        q_fps = pb.Unit.MPS(q) >> pb.Unit.FPS
        cmp(f'find_velocity_less_than_index({q_fps} fps)', H.find_velocity_less_than_index(hr, q_fps, pb.Unit.FPS), scan(lambda r: (r.velocity >> pb.Unit.FPS) < q_fps))
    cmp('find_first_index_matching_condition(time >= 1 and flag != RANGE)', H.find_first_index_matching_condition(hr, lambda r: r.time >= 1 and r.flag != 8),
        scan(lambda r: r.time >= 1 and r.flag != 8))
    # the result object itself: iteration and indexing are the row list
    n += 1
    if list(hr) != rows or any(hr[i] is not rows[i] for i in range(len(rows))):
        out.append({'msg': f'rows with flags {flags}: iterating / indexing the result does not give the rows in order', 'key': None})
    return {'v': out, 'n': n, 'states': 1, 'transitions': n, 'traces': 1, 'nt': cell if len(set(flags)) > 1 else None}


PARTS = {'lookup': lookup, 'negative': negative, 'apex': apex, 'real': real, 'reuse': reuse, 'flagsearch': flagsearch}


def nondecreasing(L):
    return [list(c) for c in itertools.combinations_with_replacement(VALS, L)]


def plan(tier):
    cells = []
    for L in range(0, 6):
        for ts in nondecreasing(L):
            cells.append([ts, ts])
    if tier == 'thorough':
        for L in range(1, 5):
            for ts in nondecreasing(L):
                for ds in nondecreasing(L):
                    if ts != ds:
                        cells.append([ts, ds])
    neg = [[], [0], [0, 1, 2], [1, 1, 3]]
    ap = [[0, 0, False]] + [[p, L, pl] for L in range(1, 8) for p in range(L) for pl in (False, True)]
    rl = [[{'zero': 0.5, 'mv': 2750.0}, 600, 25], [{'zero': 3.0, 'look': 15.0}, 400, 10], [{'zero': 30.0, 'mv': 900.0, 'dm': 'G1', 'bc': 0.3}, 300, 20],
          [{'look': 2.0, 'zero': 0.0}, 1000, 50, 100], [{'look': 5.0, 'zero': 0.0}, 1500, 100, 200]]      # zeroed on an upward sight line: crosses it while still climbing
    ru = []
    for L in (1, 2, 3) if tier == 'quick' else (1, 2, 3, 4):
        ls = nondecreasing(L)
        ru += [[a, b] for a in ls for b in ls if a != b]
    fs = []
    for L in range(0, 5 if tier == 'quick' else 6):
        for fl in itertools.product(FLAGS, repeat=L):
            for sp in ([tuple(SPEEDS[min(i, 2)] for i in range(L))] + ([tuple(SPEEDS[(i + 1) % 3] for i in range(L)), tuple(600.0 for _ in range(L))] if L else [])):
                fs.append([list(fl), list(sp)])
    return [('lookup', cells), ('negative', neg), ('apex', ap), ('real', rl), ('reuse', ru), ('flagsearch', fs)]

"""C07 - preferred units only choose how bare numbers and output are read.
Engine E1 (deviation-bounded configuration space; full parameter x value x configuration product) + E2 (construct-under-A / compute-under-B histories)."""
import itertools

from mc.core import bits
from mc.ref import units as R

PID = 'C07'
# thread bodies (defined with engine E4, mc/checks/c10_sched.py) that exercise this property's code; explored after the parts below
SCHED_SETS = [('bare||fire', 'call')]
LEVEL = 'model_checking'
ENGINE = 'E1+E2'
TECHNIQUE = 'deviation-bounded exhaustive enumeration of preferred-unit configurations (all single-slot and, thorough, all two-slot deviations, presets, scrambled) with a bit-for-bit differential oracle against the default configuration; all set/compute histories over 4 configurations; full product parameter x value x configuration for bare-number equivalence'
RULE = ('configuration cells = default + every single-slot deviation (101) + presets + 2 scrambled configurations (+ every two-slot deviation in thorough); each runs a '
        'scenario with explicit quantities only (Atmo, 2 wind segments, canted inclined shot, powder calibration, multi-BC model, zeroing, fire plain+extra, danger space, '
        'SFP/FFP/LWIR sight) and compares the IEEE bit patterns of all raw results with the default run; history cells = all 16 (construct under A, compute under B) pairs; '
        'bare cells = every float-or-quantity parameter (37) x value {0,1,-1,2.5,100} x configuration {default, metric, scrambled}: call with the bare number vs with '
        'slot_unit(value); non-trivial = configuration differs from default / explicit form accepted')
ASSUMPTIONS = ['cells where the explicit-quantity form itself raises are vacuous; trajectory_step=0 is the documented "no step"',
               '0 is not a value for an SFP calibration distance, a click size or a BC-point velocity (the API rejects it or cannot use it)',
               'bit patterns are compared within one process']
LEVEL_TEXT = ('PreferredUnits is process-global mutable state; the check enumerates its configurations (deviation bound reported) and the order of set/construct/compute '
              'operations, with a differential oracle that needs no expected values.')

SLOT_DIM = {'angular': 'angular', 'distance': 'distance', 'velocity': 'velocity', 'pressure': 'pressure', 'temperature': 'temperature',
            'diameter': 'distance', 'length': 'distance', 'weight': 'weight', 'adjustment': 'angular', 'drop': 'distance', 'energy': 'energy',
            'ogw': 'weight', 'sight_height': 'distance', 'target_height': 'distance', 'twist': 'distance'}
DEFAULT = {'angular': 'Degree', 'distance': 'Yard', 'velocity': 'FPS', 'pressure': 'InHg', 'temperature': 'Fahrenheit', 'diameter': 'Inch',
           'length': 'Inch', 'weight': 'Grain', 'adjustment': 'Mil', 'drop': 'Inch', 'energy': 'FootPound', 'ogw': 'Pound', 'sight_height': 'Inch',
           'target_height': 'Inch', 'twist': 'Inch'}
SCR1 = dict(angular='MOA', distance='Meter', velocity='KMH', pressure='PSI', temperature='Kelvin', diameter='Millimeter', length='Centimeter',
            weight='Gram', adjustment='InchesPer100Yd', drop='Foot', energy='Joule', ogw='Kilogram', sight_height='Line', target_height='Yard',
            twist='Kilometer')
SCR2 = dict(angular='Radian', distance='Foot', velocity='MPS', pressure='hPa', temperature='Celsius', diameter='Line', length='Millimeter',
            weight='Ounce', adjustment='CmPer100m', drop='Centimeter', energy='Joule', ogw='Newton', sight_height='Centimeter',
            target_height='Meter', twist='Yard')
METRIC = dict(angular='Degree', distance='Meter', velocity='MPS', pressure='hPa', temperature='Celsius', diameter='Millimeter', length='Millimeter',
              weight='Gram', adjustment='Mil', drop='Centimeter', energy='Joule', ogw='Kilogram', sight_height='Centimeter', target_height='Centimeter',
              twist='Centimeter')
NAMED = {'default': {}, 'scr1': SCR1, 'scr2': SCR2, 'metric': METRIC}


def apply_cfg(cfg):
    import py_ballisticcalc as pb
    pb.PreferredUnits.defaults()
    if isinstance(cfg, str) and cfg.startswith('preset:'):
        {'imperial': pb.loadImperialUnits, 'metric': pb.loadMetricUnits, 'mixed': pb.loadMixedUnits}[cfg[7:]]()
        pb.reset_globals()
        return
    if isinstance(cfg, str):
        cfg = NAMED[cfg]
    for slot, un in cfg.items():
        setattr(pb.PreferredUnits, slot, pb.Unit[un])


def build(switch=None):
    """scenario objects, explicit quantities only; switch() is called between constructions (preferences may change while objects are being built)"""
    import py_ballisticcalc as pb
    U = pb.Unit
    sw = switch or (lambda: None)
    dm = pb.DragModel(0.223, pb.TableG7, U.Grain(168), U.Inch(0.308), U.Inch(1.282))
    sw()
    dm2 = pb.DragModelMultiBC([pb.BCPoint(0.22, V=U.FPS(2500)), pb.BCPoint(0.2, Mach=1.0)], pb.TableG7, U.Grain(168), U.Inch(0.308))
    sw()
    ammo = pb.Ammo(dm, U.FPS(2750), U.Celsius(15), use_powder_sensitivity=True)
    ammo.calc_powder_sens(U.FPS(2700), U.Celsius(0))
    sw()
    w = pb.Weapon(U.Inch(2), U.Inch(12), U.MOA(3))
    sw()
    atmo = pb.Atmo(U.Foot(1500), U.InHg(28), U.Fahrenheit(40), 40, U.Fahrenheit(70))
    sw()
    w1 = pb.Wind(U.MPH(10), U.Degree(70), U.Yard(50))
    sw()
    w2 = pb.Wind(U.MPH(5), U.Degree(200), U.Meter(137.16))     # = 150 yd, but a smaller NUMBER than 50 yd when the other is shown in feet/inches
    sw()
    shot = pb.Shot(w, ammo, U.Degree(5), U.MOA(1), U.Degree(2), atmo, [w2, w1])
    sw()
    sights = [pb.Sight('SFP', U.Meter(100), U.Mil(0.1), U.MOA(0.25)), pb.Sight('FFP', None, U.MOA(0.25), U.Mil(0.1)),
              pb.Sight('LWIR', None, U.InchesPer100Yd(0.5), U.CmPer100m(1.0))]
    # objects built with every optional argument OMITTED: whatever the library fills in must not depend on the preferences either
    sw()
    ammo_d = pb.Ammo(dm, U.FPS(2750), temp_modifier=0.02, use_powder_sensitivity=True)
    sw()
    atmo_d = pb.Atmo(temperature=U.Celsius(-5))
    sw()
    shot_d = pb.Shot(pb.Weapon(), ammo_d, atmo=atmo_d)
    sw()
    shot_dd = pb.Shot(pb.Weapon(U.Inch(1.5)), pb.Ammo(dm, U.FPS(2600)))
    return {'dm2': dm2, 'ammo': ammo, 'atmo': atmo, 'shot': shot, 'sights': sights, 'calc': pb.Calculator(), 'shot_d': shot_d, 'shot_dd': shot_dd,
            'ammo_d': ammo_d, 'atmo_d': atmo_d}


def compute(o):
    import py_ballisticcalc as pb
    U = pb.Unit
    shot, calc, atmo, ammo = o['shot'], o['calc'], o['atmo'], o['ammo']
    z = calc.set_weapon_zero(shot, U.Yard(100))
    r = calc.fire(shot, U.Yard(200), U.Yard(20), True)
    p = calc.fire(shot, U.Yard(200), U.Yard(50))
    ds = r.danger_space(U.Yard(120), U.Inch(10))
    out = {'zero': [bits(z.raw_value)], 'atmo': [bits(atmo.density_ratio), bits(atmo.mach.raw_value), bits(atmo.temperature.raw_value),
                                                 bits(atmo.pressure.raw_value), bits(atmo.powder_temp.raw_value)],
           'ammo': [bits(ammo.temp_modifier), bits(ammo.get_velocity_for_temp(U.Celsius(-5)).raw_value)]}
    from mc.world import traj_bits
    out['extra_rows'] = traj_bits(r.trajectory)
    out['plain_rows'] = traj_bits(p.trajectory)
    out['danger'] = [bits(ds.begin.distance.raw_value), bits(ds.end.distance.raw_value), bits(ds.at_range.distance.raw_value)]
    out['defaults'] = (traj_bits(calc.fire(o['shot_d'], U.Yard(100), U.Yard(50)).trajectory) + traj_bits(calc.fire(o['shot_dd'], U.Yard(100), U.Yard(50)).trajectory)
                       + [bits(o['ammo_d'].powder_temp.raw_value), bits(o['atmo_d'].powder_temp.raw_value), bits(o['atmo_d'].pressure.raw_value),
                          bits(o['shot_dd'].atmo.temperature.raw_value), bits(o['shot_dd'].winds[0].until_distance.raw_value), bits(pb.Atmo.icao().density_ratio),
                          bits(pb.Vacuum().temperature.raw_value), bits(o['ammo_d'].get_velocity_for_temp(U.Celsius(30)).raw_value)])
    out['multibc'] = ([bits(o['dm2'].BC), bits(o['dm2'].weight.raw_value), bits(o['dm2'].diameter.raw_value), bits(o['dm2'].length.raw_value)]
                      + [bits(pt.CD) for pt in o['dm2'].drag_table]
                      + traj_bits(calc.fire(pb.Shot(pb.Weapon(U.Inch(2), U.Inch(10)), pb.Ammo(o['dm2'], U.FPS(2600))), U.Yard(100), U.Yard(50)).trajectory))
    # no step given: the library derives it from the range (one tenth) - for ranges whose tenth is not exact in every unit, too
    out['no_step'] = [traj_bits(calc.fire(o['shot_dd'], rng).trajectory) for rng in (U.Yard(77.7), U.Foot(100), U.Meter(35), U.Inch(1234.5))]
    sg = []
    for s in o['sights']:
        a = s.get_adjustment(U.Meter(250), U.Mil(1.3), U.Mil(-0.4), 7)
        b = s.get_trajectory_adjustment(p.trajectory[2], 4)
        sg += [bits(a.vertical), bits(a.horizontal), bits(b.vertical), bits(b.horizontal)]
    out['sight'] = sg
    # output reading: in_def_units is the raw value read in the preferred unit, nothing else
    row = p.trajectory[2]
    P = pb.PreferredUnits
    exp = (row.time, row.distance >> P.distance, row.velocity >> P.velocity, row.mach, row.height >> P.drop, row.target_drop >> P.drop,
           row.drop_adj >> P.adjustment, row.windage >> P.drop, row.windage_adj >> P.adjustment, row.look_distance >> P.distance,
           row.angle >> P.angular, row.density_factor, row.drag, row.energy >> P.energy, row.ogw >> P.ogw, row.flag)
    out['_display_ok'] = tuple(row.in_def_units()) == exp
    return out


_BASE = {}


def baseline():
    if 'b' not in _BASE:
        apply_cfg('default')
        _BASE['b'] = compute(build())
    return _BASE['b']


def diff(res, base, label):
    out = []
    for k in base:
        if k.startswith('_'):
            continue
        if res[k] != base[k]:
            out.append({'msg': f'{label}: {k} differs bit-for-bit from the run under default preferred units', 'key': None, 'field': k})
    if not res.get('_display_ok', True):
        out.append({'msg': f'{label}: in_def_units() is not the raw values read in the preferred units', 'key': None})
    return out


def config(cell):
    base = baseline()
    apply_cfg(cell)
    res = compute(build())
    apply_cfg('default')
    return {'v': diff(res, base, f'preferred units {cell}')[:4], 'n': 1, 'states': 1, 'transitions': 1, 'traces': 1,
            'nt': cell if cell not in ('default', {}) else None}


def hist(cell):
    """construct under A, compute under B"""
    a, b = cell
    base = baseline()
    apply_cfg(a)
    o = build()
    apply_cfg(b)
    res = compute(o)
    apply_cfg('default')
    return {'v': diff(res, base, f'objects built under {a}, computed under {b}')[:4], 'n': 1, 'states': 2, 'transitions': 2, 'traces': 1,
            'nt': cell if a != b else None}


def q(o):
    import py_ballisticcalc as pb
    if isinstance(o, pb.AbstractDimension):
        return bits(o.raw_value)
    if isinstance(o, float):
        return bits(o)
    if isinstance(o, (int, str, bool, type(None))):
        return o
    if isinstance(o, (list, tuple)):
        return [q(x) for x in o]
    if hasattr(o, '__dict__'):
        return [(k, q(v)) for k, v in sorted(vars(o).items()) if not k.startswith('_initial')]
    return str(type(o))


def params():
    import py_ballisticcalc as pb
    U = pb.Unit

    def dm():
        return pb.DragModel(0.223, pb.TableG7, U.Grain(168), U.Inch(0.308), U.Inch(1.2))

    def base_shot(**kw):
        return pb.Shot(pb.Weapon(U.Inch(2), U.Inch(12), U.MOA(4)), pb.Ammo(dm(), U.FPS(2750)), **kw)
    calc = pb.Calculator()

    def fire_fp(shot, rng=50):
        from mc.world import traj_bits
        return traj_bits(calc.fire(shot, U.Yard(rng), U.Yard(10)).trajectory)

    def extra_hr(**kw):
        # danger space scenario on the FALLING branch (zeroed at 100 yd, target at 250 yd)
        s = base_shot(**kw)
        return calc.fire(s, U.Yard(400), U.Yard(5), True)

    def atmo_fp(a):
        return [bits(a.altitude.raw_value), bits(a.pressure.raw_value), bits(a.temperature.raw_value), bits(a.powder_temp.raw_value),
                bits(a.density_ratio), bits(a.mach.raw_value)]
    ps = {
        'Atmo.altitude': ('distance', lambda v: atmo_fp(pb.Atmo(altitude=v, pressure=U.InHg(29), temperature=U.Fahrenheit(50)))),
        'Atmo.pressure': ('pressure', lambda v: atmo_fp(pb.Atmo(altitude=U.Foot(0), pressure=v, temperature=U.Fahrenheit(50)))),
        'Atmo.temperature': ('temperature', lambda v: atmo_fp(pb.Atmo(altitude=U.Foot(0), pressure=U.InHg(29), temperature=v))),
        'Atmo.powder_t': ('temperature', lambda v: atmo_fp(pb.Atmo(altitude=U.Foot(0), pressure=U.InHg(29), temperature=U.Fahrenheit(50), powder_t=v))),
        'Atmo.icao.altitude': ('distance', lambda v: atmo_fp(pb.Atmo.icao(v))),
        'Atmo.icao.temperature': ('temperature', lambda v: atmo_fp(pb.Atmo.icao(U.Foot(100), v))),
        'Vacuum.altitude': ('distance', lambda v: atmo_fp(pb.Vacuum(v, U.Celsius(10)))),
        'Vacuum.temperature': ('temperature', lambda v: atmo_fp(pb.Vacuum(U.Foot(10), v))),
        'Wind.velocity': ('velocity', lambda v: q(list(pb.Wind(v, U.Degree(90), U.Yard(100)).vector))),
        'Wind.direction_from': ('angular', lambda v: q(list(pb.Wind(U.MPH(5), v, U.Yard(100)).vector))),
        'Wind.until_distance': ('distance', lambda v: fire_fp(base_shot(winds=[pb.Wind(U.MPH(15), U.Degree(90), v)]))),
        'Shot.look_angle': ('angular', lambda v: fire_fp(base_shot(look_angle=v))),
        'Shot.relative_angle': ('angular', lambda v: fire_fp(base_shot(relative_angle=v))),
        'Shot.cant_angle': ('angular', lambda v: fire_fp(base_shot(cant_angle=v))),
        'Weapon.sight_height': ('sight_height', lambda v: fire_fp(pb.Shot(pb.Weapon(v, U.Inch(12), U.MOA(4)), pb.Ammo(dm(), U.FPS(2750))))),
        'Weapon.twist': ('twist', lambda v: fire_fp(pb.Shot(pb.Weapon(U.Inch(2), v, U.MOA(4)), pb.Ammo(dm(), U.FPS(2750))))),
        'Weapon.zero_elevation': ('angular', lambda v: fire_fp(pb.Shot(pb.Weapon(U.Inch(2), U.Inch(12), v), pb.Ammo(dm(), U.FPS(2750))))),
        'Ammo.mv': ('velocity', lambda v: fire_fp(pb.Shot(pb.Weapon(U.Inch(2)), pb.Ammo(dm(), v)), 5)),
        'Ammo.powder_temp': ('temperature', lambda v: q(pb.Ammo(dm(), U.FPS(2750), v, 0.01, True).get_velocity_for_temp(U.Celsius(30)))),
        'Ammo.get_velocity_for_temp': ('temperature', lambda v: q(pb.Ammo(dm(), U.FPS(2750), U.Celsius(15), 0.01, True).get_velocity_for_temp(v))),
        'Ammo.calc_powder_sens.velocity': ('velocity', lambda v: q(pb.Ammo(dm(), U.FPS(2750), U.Celsius(15)).calc_powder_sens(v, U.Celsius(0)))),
        'Ammo.calc_powder_sens.temperature': ('temperature', lambda v: q(pb.Ammo(dm(), U.FPS(2750), U.Celsius(15)).calc_powder_sens(U.FPS(2700), v))),
        'DragModel.weight': ('weight', lambda v: q(pb.DragModel(0.2, pb.TableG7, v, U.Inch(0.3), U.Inch(1)).weight)),
        'DragModel.diameter': ('diameter', lambda v: q(pb.DragModel(0.2, pb.TableG7, U.Grain(100), v, U.Inch(1)).diameter)),
        'DragModel.length': ('length', lambda v: q(pb.DragModel(0.2, pb.TableG7, U.Grain(100), U.Inch(0.3), v).length)),
        'DragModelMultiBC.weight': ('weight', lambda v: q(pb.DragModelMultiBC([pb.BCPoint(0.2, Mach=1.0)], pb.TableG7, v, U.Inch(0.3)).BC)),
        'DragModelMultiBC.diameter': ('diameter', lambda v: q(pb.DragModelMultiBC([pb.BCPoint(0.2, Mach=1.0)], pb.TableG7, U.Grain(100), v).BC)),
        'DragModelMultiBC.length': ('length', lambda v: q(pb.DragModelMultiBC([pb.BCPoint(0.2, Mach=1.0)], pb.TableG7, U.Grain(100), U.Inch(0.3), v).length)),
        'basicConfig.max_calc_step_size': ('distance', lambda v: (pb.basicConfig(max_calc_step_size=v), q(pb.Calculator()._calc._config.max_calc_step_size_feet), pb.reset_globals())[1]),
        'BCPoint.V': ('velocity', lambda v: q(pb.BCPoint(0.2, V=v).Mach)),
        'fire.range': ('distance', lambda v: q([x.distance for x in calc.fire(base_shot(), v, U.Foot(10)).trajectory])),
        'fire.step': ('distance', lambda v: q([x.distance for x in calc.fire(base_shot(), U.Foot(60), v).trajectory])),
        'zero.distance': ('distance', lambda v: q(calc.barrel_elevation_for_target(base_shot(), v))),
        'set_weapon_zero.distance': ('distance', lambda v: q(calc.set_weapon_zero(base_shot(), v))),
        'danger.at_range': ('distance', lambda v: q(extra_hr().danger_space(v, U.Inch(10)).end.distance)),
        'danger.target_height': ('target_height', lambda v: q([extra_hr().danger_space(U.Yard(250), v).end.distance,
                                                                extra_hr().danger_space(U.Yard(250), v).begin.distance,
                                                                extra_hr().danger_space(U.Yard(250), v).target_height])),
        'danger.look_angle': ('angular', lambda v: q(extra_hr(look_angle=U.Degree(5)).danger_space(U.Yard(50), U.Inch(10), v).look_angle)),
        'Sight.scale_factor': ('distance', lambda v: q(list(pb.Sight('SFP', v, U.Mil(0.1), U.Mil(0.1)).get_adjustment(U.Yard(100), U.Mil(1), U.Mil(1), 4)))),
        'Sight.h_click': ('adjustment', lambda v: q(list(pb.Sight('FFP', U.Yard(100), v, U.Mil(0.1)).get_adjustment(U.Yard(100), U.Mil(1), U.Mil(1), 4)))),
        'Sight.v_click': ('adjustment', lambda v: q(list(pb.Sight('SFP', U.Yard(100), U.Mil(0.1), v).get_adjustment(U.Yard(50), U.Mil(1), U.Mil(1), 4)))),
        'Sight.target_distance': ('distance', lambda v: q(list(pb.Sight('SFP', U.Yard(100), U.Mil(0.1), U.Mil(0.2)).get_adjustment(v, U.Mil(1), U.Mil(1), 4)))),
        'set_global_step': ('distance', lambda v: (pb.set_global_max_calc_step_size(v), q(pb.Calculator()._calc._config.max_calc_step_size_feet),
                                                   q(pb.get_global_max_calc_step_size()), pb.reset_globals())[1:3]),
    }
    return ps


NO_ZERO = {'basicConfig.max_calc_step_size', 'BCPoint.V', 'Sight.scale_factor', 'Sight.h_click', 'Sight.v_click', 'fire.step', 'Sight.target_distance'}
VALUES = [0, 1, -1, 2.5, 100, 59, 15]      # 59 and 15: the numbers of the fixtures' 15 C baseline in deg F (raw) and deg C - a bare number that happens to equal a stored number means nothing special


def bare(cell):
    import py_ballisticcalc as pb
    name, v, cfg = cell
    slot, fn = params()[name]
    apply_cfg(cfg)
    unit = getattr(pb.PreferredUnits, slot)
    if v == 'nominal':
        # the bare number that means the same physical magnitude as 2.5 default units, in whatever unit the slot is set to (every unit of the slot's
        # dimension gets its turn: the coercion of a bare number goes through that unit's own constructor)
        v = pb.Unit[DEFAULT[slot]](2.5) >> unit
    # the explicit quantity is built with the dimension class itself, not through Unit.__call__ (which is the very path a bare number takes)
    cls = getattr(pb, R.DIM_OF[unit.name].capitalize())
    try:
        e = fn(cls(v, unit))
    except Exception as ex:  # explicit form not accepted -> vacuous
        apply_cfg('default')
        pb.reset_globals()
        return {'vac': True, 'obs': [name, 'explicit raises', type(ex).__name__]}
    apply_cfg(cfg)
    pb.reset_globals()
    out = []
    try:
        b = fn(v)
        if b != e:
            out.append({'msg': f'{name}: bare {v} under preferred unit {unit!r} ({cfg}) is not interchangeable with {unit!r}({v}) '
                               f'(results differ)', 'key': None})
    except Exception as ex:  # noqa
        out.append({'msg': f'{name}: bare {v} raises {type(ex).__name__} while {unit!r}({v}) is accepted ({cfg})', 'key': None})
    apply_cfg('default')
    pb.reset_globals()
    return {'v': out, 'n': 2, 'states': 1, 'transitions': 2, 'traces': 1, 'nt': cell, 'obs': [v == 0, cfg]}


def hist_mixed(cell):
    """preferences change WHILE the objects are being built (every construction alternates between A and B), computation under C"""
    a, b, c = cell
    base = baseline()
    state = {'i': 0}

    def switch():
        apply_cfg(a if state['i'] % 2 == 0 else b)
        state['i'] += 1
    switch()
    o = build(switch)
    apply_cfg(c)
    res = compute(o)
    apply_cfg('default')
    return {'v': diff(res, base, f'objects built while preferences alternate between {a} and {b}, computed under {c}')[:4], 'n': 1, 'states': 3, 'transitions': 3,
            'traces': 1, 'nt': cell}


PARTS = {'config': config, 'hist': hist, 'bare': bare, 'hist_mixed': hist_mixed}


def single_deviations():
    out = []
    for slot, dim in SLOT_DIM.items():
        for un in R.DIMENSIONS[dim]:
            if un != DEFAULT[slot]:
                out.append({slot: un})
    return out


def plan(tier):
    singles = single_deviations()
    cfgs = ['default'] + singles + ['preset:imperial', 'preset:metric', 'preset:mixed', 'scr1', 'scr2', 'metric']
    if tier == 'thorough':
        for a, b in itertools.combinations(singles, 2):
            if list(a)[0] != list(b)[0]:
                cfgs.append({**a, **b})
    else:
        # a slice of the two-slot deviations that involves the slots a scenario result can depend on
        hot = [s for s in singles if list(s)[0] in ('adjustment', 'distance', 'angular', 'target_height', 'temperature')]
        for a, b in list(itertools.combinations(hot, 2))[::9]:
            if list(a)[0] != list(b)[0]:
                cfgs.append({**a, **b})
    hs = [[a, b] for a in NAMED for b in NAMED]
    names = ['Atmo.altitude', 'Atmo.pressure', 'Atmo.temperature', 'Atmo.powder_t', 'Atmo.icao.altitude', 'Atmo.icao.temperature', 'Vacuum.altitude',
             'Vacuum.temperature', 'Wind.velocity', 'Wind.direction_from', 'Wind.until_distance', 'Shot.look_angle', 'Shot.relative_angle',
             'Shot.cant_angle', 'Weapon.sight_height', 'Weapon.twist', 'Weapon.zero_elevation', 'Ammo.mv', 'Ammo.powder_temp', 'Ammo.get_velocity_for_temp',
             'Ammo.calc_powder_sens.velocity', 'Ammo.calc_powder_sens.temperature', 'DragModel.weight', 'DragModel.diameter', 'DragModel.length',
             'DragModelMultiBC.weight', 'DragModelMultiBC.diameter', 'DragModelMultiBC.length', 'basicConfig.max_calc_step_size', 'BCPoint.V', 'fire.range', 'fire.step', 'zero.distance', 'set_weapon_zero.distance',
             'danger.at_range', 'danger.target_height', 'danger.look_angle', 'Sight.scale_factor', 'Sight.h_click', 'Sight.v_click', 'Sight.target_distance',
             'set_global_step']
    bs = [[n, v, c] for n in names for v in VALUES if not (v == 0 and n in NO_ZERO) for c in ('default', 'metric', 'scr1')]
    slot_of = {'Atmo.altitude': 'distance', 'Atmo.pressure': 'pressure', 'Atmo.temperature': 'temperature', 'Wind.velocity': 'velocity', 'Wind.direction_from': 'angular',
               'Weapon.sight_height': 'sight_height', 'Weapon.twist': 'twist', 'Weapon.zero_elevation': 'angular', 'DragModel.weight': 'weight', 'DragModel.diameter': 'diameter',
               'DragModel.length': 'length', 'fire.range': 'distance', 'danger.target_height': 'target_height', 'Sight.h_click': 'adjustment', 'Ammo.mv': 'velocity',
               'Ammo.powder_temp': 'temperature', 'Shot.look_angle': 'angular'}
    bs += [[n, 'nominal', {sl: un}] for n, sl in slot_of.items() for un in R.DIMENSIONS[SLOT_DIM[sl]] if un != DEFAULT[sl]]
    hm = [[a, b, c] for a in NAMED for b in NAMED if a != b for c in ('default', 'scr2')]
    return [('config', cfgs), ('hist', hs), ('bare', bs), ('hist_mixed', hm)]

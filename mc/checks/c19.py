"""C19 - sight click counts are the angular correction divided by the effective click value.
Engine E1, full product of the sight space."""
import itertools
import math

PID = 'C19'
# thread bodies (defined with engine E4, mc/checks/c10_sched.py) that exercise this property's code; explored after the parts below
SCHED_SETS = [('sight||sight', 'call'), ('sightrow||display', 'call')]
LEVEL = 'exploration'
ENGINE = 'E1'
TECHNIQUE = 'bounded exhaustive enumeration (full product focal plane x click pair x click unit x calibration x target distance x magnification x corrections) against the statement as a formula'
RULE = ('cells = full product of focal plane {FFP,SFP,LWIR} x (h,v) click {(0.1,0.25),(0.25,0.1),(1,1)} x 6 angular units x '
        'calibration distance x target distance (m/yd/ft) x magnification; each cell evaluates 6 signed corrections directly and '
        'through a trajectory row; non-trivial = h != v or magnification != 1 or calibration != target distance '
        '(so an axis swap or a missing factor is observable); plus a list of constructor rejections')
ASSUMPTIONS = ['for tangent-based click units (in/100yd, cm/100m) "nominal x factor" may be applied to the angle or to the '
               'unit number (both readings accepted, they differ by < 1e-6 relative)',
               'grid values only; target distances are explicit quantities']

CLICKS = [(0.1, 0.25), (0.25, 0.1), (1.0, 1.0)]
UNITS = ['Mil', 'MOA', 'MRad', 'Degree', 'InchesPer100Yd', 'CmPer100m']
CALS = [('Meter', 100.0), ('Yard', 100.0), ('Meter', 50.0)]
TDS = [('Meter', 50.0), ('Yard', 100.0), ('Foot', 250.0), ('Meter', 1000.0), ('Meter', 100.0)]
MAGS = [1.0, 2.5, 10.0, 0.5]      # 0.5: below 1x (wide-angle setting of a thermal sight)
CORR = [0.3, -0.3, 1.0, -1.0, 7.7, -7.7]   # mil


def U(n):
    from py_ballisticcalc import Unit
    return Unit[n]


def sight(cell):
    import py_ballisticcalc as pb
    fp, (h, v), un, (calu, cal), (tdu, td), mag = cell
    cu = U(un)
    out = []
    s = pb.Sight(fp, U(calu)(cal), cu(h), cu(v))
    hr, vr = cu(h).raw_value, cu(v).raw_value
    calr, tdr = U(calu)(cal).raw_value, U(tdu)(td).raw_value
    if fp == 'FFP':
        eff = {'v': [vr], 'h': [hr]}
    elif fp == 'LWIR':
        eff = {'v': [vr / mag], 'h': [hr / mag]}
    else:
        k = calr / tdr * mag
        eff = {'v': [vr * k], 'h': [hr * k]}
        if un in ('InchesPer100Yd', 'CmPer100m'):
            sc = 3600.0 if un == 'InchesPer100Yd' else 10000.0
            eff['v'].append(math.atan(v * k / sc))
            eff['h'].append(math.atan(h * k / sc))
    n = 0
    prev = None
    for c in CORR:
        d, w = pb.Unit.Mil(c), pb.Unit.Mil(-c / 2)
        # the sight object is long-lived: calls for other distances / magnifications in between must leave nothing behind
        s.get_adjustment(U(tdu)(td * 3), pb.Unit.Mil(0.7), pb.Unit.Mil(0.2), mag * 2)
        r = s.get_adjustment(U(tdu)(td), d, w, mag)
        n += 1
        for axis, got, corr in (('v', r.vertical, d.raw_value), ('h', r.horizontal, w.raw_value)):
            exps = [corr / e for e in eff[axis]]
            if not any(abs(got - e) <= 1e-9 * abs(e) for e in exps):
                out.append({'msg': f'{fp} {un} h={h} v={v} cal={cal}{calu} target={td}{tdu} x{mag}: {"vertical" if axis == "v" else "horizontal"} '
                                   f'clicks for {c if axis == "v" else -c / 2} mil = {got!r}, correction/effective click = {exps[0]!r}', 'key': None})
            if (got > 0) != (corr > 0):
                out.append({'msg': f'{fp}: sign of {axis} clicks {got} differs from the correction {corr}', 'key': None})
        # linear in the correction
        r2 = s.get_adjustment(U(tdu)(td), pb.Unit.Mil(2 * c), pb.Unit.Mil(-c), mag)
        if abs(r2.vertical - 2 * r.vertical) > 1e-12 * abs(r2.vertical) or abs(r2.horizontal - 2 * r.horizontal) > 1e-12 * abs(r2.horizontal):
            out.append({'msg': f'{fp} {un}: clicks not linear in the correction: f({2 * c})={tuple(r2)} vs 2 f({c})={tuple(r)}', 'key': None})
        # same through a trajectory row
        z = pb.Unit.Foot(0)
        row = pb.TrajectoryData(0.1, U(tdu)(td), pb.Unit.FPS(1000), 1.0, z, z, pb.Unit.Mil(c), z, pb.Unit.Mil(-c / 2), U(tdu)(td),
                                pb.Unit.Radian(0), 0.0, 0.0, pb.Unit.FootPound(0), pb.Unit.Pound(0), 8)
        r3 = s.get_trajectory_adjustment(row, mag)
        if tuple(r3) != tuple(r):
            out.append({'msg': f'{fp}: get_trajectory_adjustment {tuple(r3)} differs from get_adjustment {tuple(r)} for the same row', 'key': None})
    # conversions only change the unit a quantity displays in: re-displaying the sight's own quantities (or handing over the target distance
    # displayed in another unit) must not change the clicks
    base = s.get_adjustment(U(tdu)(td), pb.Unit.Mil(1.0), pb.Unit.Mil(-0.5), mag)
    for du, au in (('Meter', 'MOA'), ('Inch', 'Radian'), ('Kilometer', 'CmPer100m')):
        s2 = pb.Sight(fp, U(calu)(cal), cu(h), cu(v))
        s2.scale_factor << pb.Unit[du]
        s2.h_click_size << pb.Unit[au]
        s2.v_click_size << pb.Unit[au]
        tdq = U(tdu)(td)
        tdq << pb.Unit.Foot
        r4 = s2.get_adjustment(tdq, pb.Unit.Mil(1.0), pb.Unit.Mil(-0.5), mag)
        n += 1
        if abs(r4.vertical - base.vertical) > 1e-9 * abs(base.vertical) or abs(r4.horizontal - base.horizontal) > 1e-9 * abs(base.horizontal):
            if un not in ('InchesPer100Yd', 'CmPer100m') and au != 'CmPer100m':
                out.append({'msg': f'{fp} {un} cal={cal}{calu} target={td}{tdu} x{mag}: clicks change from {tuple(base)} to {tuple(r4)} when the calibration distance is merely displayed in {du} and the clicks in {au}', 'key': None})
                break
    nt = [fp, h != v, mag != 1.0, calr != tdr]
    return {'v': out[:4], 'n': 3 * n, 'nt': cell if (h != v or mag != 1.0 or calr != tdr) else None, 'obs': nt}


def reject(cell):
    import py_ballisticcalc as pb
    name = cell
    M = pb.Unit.Mil
    cases = {
        'unknown plane': lambda: pb.Sight('XFP', pb.Unit.Meter(100), M(0.1), M(0.1)),
        'empty plane': lambda: pb.Sight('', pb.Unit.Meter(100), M(0.1), M(0.1)),
        'lowercase plane': lambda: pb.Sight('ffp', pb.Unit.Meter(100), M(0.1), M(0.1)),
        'SFP without calibration': lambda: pb.Sight('SFP', None, M(0.1), M(0.1)),
        'SFP bare zero calibration': lambda: pb.Sight('SFP', 0, M(0.1), M(0.1)),
        'h click zero': lambda: pb.Sight('FFP', None, M(0), M(0.1)),
        'v click zero': lambda: pb.Sight('FFP', None, M(0.1), M(0)),
        'h click negative': lambda: pb.Sight('FFP', None, M(-0.1), M(0.1)),
        'v click negative': lambda: pb.Sight('LWIR', None, M(0.1), M(-0.1)),
        'v click negative SFP': lambda: pb.Sight('SFP', pb.Unit.Meter(100), M(0.1), M(-0.1)),
        'bare zero click': lambda: pb.Sight('FFP', None, 0, 0.1),
        'bare negative click': lambda: pb.Sight('FFP', None, 0.1, -1),
        'h click None': lambda: pb.Sight('FFP', None, None, M(0.1)),
        'v click None': lambda: pb.Sight('FFP', None, M(0.1), None),
        'click str': lambda: pb.Sight('FFP', None, '0.1', M(0.1)),
        'v click str': lambda: pb.Sight('FFP', None, M(0.1), 'x'),
    }
    ok = {
        'FFP accepted': lambda: pb.Sight('FFP', None, M(0.1), M(0.2)),
        'LWIR accepted': lambda: pb.Sight('LWIR', None, M(0.1), M(0.2)),
        'SFP accepted': lambda: pb.Sight('SFP', pb.Unit.Meter(100), M(0.1), M(0.2)),
        'bare clicks accepted': lambda: pb.Sight('FFP', None, 0.1, 0.2),
    }
    out = []
    if name in cases:
        try:
            s = cases[name]()
            out.append({'msg': f'Sight construction accepted an invalid sight ({name}): {s}', 'key': None})
        except Exception:  # any rejection satisfies the statement
            pass
    else:
        s = ok[name]()
        if s is None:
            out.append({'msg': f'valid sight not constructed ({name})', 'key': None})
    return {'v': out, 'nt': name, 'obs': name in cases}


REJECTS = ['unknown plane', 'empty plane', 'lowercase plane', 'SFP without calibration', 'SFP bare zero calibration', 'h click zero',
           'v click zero', 'h click negative', 'v click negative', 'v click negative SFP', 'bare zero click', 'bare negative click',
           'h click None', 'v click None', 'click str', 'v click str', 'FFP accepted', 'LWIR accepted', 'SFP accepted',
           'bare clicks accepted']
PARTS = {'sight': sight, 'reject': reject}


def plan(tier):
    tds = TDS if tier == 'thorough' else TDS[:4]
    mags = MAGS if tier == 'quick' else MAGS + [0.25, 25.0]
    cells = [list(c) for c in itertools.product(['FFP', 'SFP', 'LWIR'], CLICKS, UNITS, CALS, tds, mags)]
    return [('sight', cells), ('reject', REJECTS)]

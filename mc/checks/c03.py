"""C03 - range card has exactly one row at every requested distance, muzzle to range.
Engine E1 over alignment classes of the range end against the integration lattice + E3 on the real record filter."""
import itertools
import math

from mc import fsm
from mc.world import make_shot, make_calc, step_trace, nextafter, BASE

PID = 'C03'
# thread bodies (defined with engine E4, mc/checks/c10_sched.py) that exercise this property's code; explored after the parts below
SCHED_SETS = [('fire||fire', 'call')]
LEVEL = 'model_checking'
ENGINE = 'E1+E3'
TECHNIQUE = 'exhaustive enumeration of the alignment classes of the range end against the integration lattice of the real solver (one representative per order cell, +-1 ulp) x recording steps, and of all step sequences up to depth n through the real record filter, against a one-row-per-multiple reference model'
RULE = ('alignment cells = 9 driver shots (no/tail/head/cross/quartering wind, 60 deg elevation, look 20, cant 90) x every lattice cell of a window '
        '(first 60 steps, and a window at 300 yd) x 8 range representatives (x_i-ulp, x_i, x_i+ulp, midpoint, x_{i+1}-c-ulp, x_{i+1}-c, '
        'x_{i+1}-c+ulp, centre of the gap when the advance exceeds the loop slack c) x steps {R, R/2, R/3, none, 0.5 ft, 0.7 ft}; unit cells: '
        'the step given as float in the preferred unit and as a quantity in ft/m/in/yd; scale cells = ranges 1 ft..2 mi x the same steps x time steps; '
        'many-row cells = decimal ranges 700..2000 m|yd with steps 0.2..0.7 m|yd (thousands of rows: range / step is an integer only up to float rounding); filter cells = every advance sequence over {0.75,1,1.25}u of length <= n x range steps {2u,2.5u,4u} through the real filter; '
        'non-trivial = a fire whose precondition held (no range error, forward motion, step >= max integration step, step <= range)')
ASSUMPTIONS = ['for a fixed shot the row set depends on (R, step) only through order relations between lattice points, multiples and R; one representative per order cell is explored',
               'row distance equals its multiple within 1e-9 relative', 'windows: first 60 steps and 40 (quick 10) steps at 300 yd']
LEVEL_TEXT = ('The record filter and the loop-end condition form a small state machine driven by the integration lattice; all alignment classes in the '
              'windows and all step sequences up to the depth bound are enumerated on the real code and compared with the reference model.')

DRIVERS = {
    'nowind': {}, 'tail20': {'wind': 'tail'}, 'tail60slow': {'wind': 'tail60', 'mv': 900.0}, 'head20': {'wind': 'head'},
    'cross10': {'wind': 'cross'}, 'quarter': {'wind': 'quarter'}, 'elev60': {'zero': 60.0}, 'look20': {'look': 20.0},
    'cant90': {'cant': 90.0}, 'cantneg25': {'cant': -25.0, 'sh': 3.0}, 'cant200look': {'cant': 200.0, 'look': -10.0},
}
MAX_STEP = 0.5
U_ = 0.25


def _ft(r):
    from py_ballisticcalc import Unit
    return r.distance >> Unit.Foot


def check_rows(rows, R, s, time_step, dt_max, shot_spec, extra=False, label=''):
    """the statement as an oracle. R, s in feet as the library received them."""
    from py_ballisticcalc import Unit
    out = []
    spec = dict(BASE)
    spec.update(shot_spec)
    rr = [r for r in rows if r.flag & 8]
    others = [r for r in rows if not r.flag & 8]
    if not extra and others:
        out.append(f'{len(others)} row(s) without the RANGE flag in a plain result (e.g. at {_ft(others[0])!r} ft, flag {int(others[0].flag)})')
    d = [_ft(r) for r in rr]
    K = int(math.floor(R * (1 + 1e-12) / s + 1e-12))
    tol = lambda m: 1e-9 * max(1.0, abs(m))
    # every multiple has exactly one row
    matched = []
    lo = 0            # d is checked for order below; rows are matched with a moving window (linear time)
    ds = sorted(range(len(d)), key=lambda i: d[i])
    for k in range(K + 1):
        m = k * s
        while lo < len(ds) and d[ds[lo]] < m - tol(m):
            lo += 1
        hits = []
        j = lo
        while j < len(ds) and d[ds[j]] <= m + tol(m):
            hits.append(ds[j])
            j += 1
        if len(hits) != 1:
            out.append(f'{len(hits)} row(s) at multiple {k} x {s!r} = {m!r} ft (range {R!r} ft); rows at {[round(x, 6) for x in d[-4:]]}')
            break
        matched.append(hits[0])
    if not out:
        ms = set(matched)
        rest = [i for i in range(len(d)) if i not in ms]
        if time_step <= 0:
            if len(rest) > 1 or (rest and not (abs(d[rest[0]] - (K + 1) * s) <= tol((K + 1) * s) and (K + 1) * s <= R + MAX_STEP + 1e-9)):
                out.append(f'unexpected extra row(s) at {[d[i] for i in rest][:4]} ft (step {s!r}, range {R!r})')
        else:
            beyond = [i for i in rest if d[i] > R + MAX_STEP + 1e-9]
            if beyond:
                out.append(f'row beyond range + one step at {d[beyond[0]]!r} ft')
    # order
    for a, b in zip(rows, rows[1:]):
        if not (_ft(a) < _ft(b) and a.time < b.time):
            out.append(f'rows not strictly increasing in distance and time at {_ft(a)!r} -> {_ft(b)!r} ft ({a.time!r} -> {b.time!r} s)')
            break
    # muzzle row
    r0 = rows[0]
    cant = math.radians(spec['cant'])
    sh = spec['sh'] / 12.0
    exp = (0.0, 0.0, spec['mv'], -math.cos(cant) * sh, -math.sin(cant) * sh)
    got = (r0.time, _ft(r0), r0.velocity >> Unit.FPS, r0.height >> Unit.Foot, r0.windage >> Unit.Foot)
    if any(abs(a - b) > 1e-9 * max(1.0, abs(a)) for a, b in zip(exp, got)):
        out.append(f'first row {got} is not the muzzle state {exp}')
    # time gaps
    if time_step > 0:
        lim = time_step + 2 * dt_max + 1e-12
        for a, b in zip(rows, rows[1:]):
            if b.time - a.time > lim:
                out.append(f'successive rows {a.time!r} s and {b.time!r} s are further apart than time step {time_step} + two integration steps ({dt_max!r})')
                break
    return [f'{label}{m}' for m in out]


def _fire(calc, shot, R, st, extra=False, time_step=0.0):
    from py_ballisticcalc import Unit
    return calc.fire(shot, Unit.Foot(R), Unit.Foot(st) if st else 0, extra, time_step).trajectory


def align(cell):
    import py_ballisticcalc as pb
    from py_ballisticcalc import Unit
    drv, window, i = cell
    spec = DRIVERS[drv]
    shot = make_shot(spec)
    calc = make_calc()
    c = MAX_STEP / 2
    if window == 'near':
        tr = step_trace(calc, shot, 20.0)
        X = [_ft(r) for r in tr]
        base = 8
    else:
        tr = step_trace(calc, shot, 900.0 + 0.3 * 60)
        X = [_ft(r) for r in tr]
        base = next(k for k, x in enumerate(X) if x >= 900.0)
    if any(b <= a for a, b in zip(X, X[1:])):
        return {'vac': True}
    k = base + i
    x0, x1 = X[k], X[k + 1]
    Rs = [nextafter(x0, False), x0, nextafter(x0, True), (x0 + x1) / 2, nextafter(x1 - c, False), x1 - c, nextafter(x1 - c, True)]
    if x1 - x0 > c:
        Rs.append((x0 + (x1 - c)) / 2)
    out = []
    n = nt = 0
    for R in Rs:
        for st in (R, R / 2, R / 3, None, 0.5, 0.7):
            try:
                rows = _fire(calc, shot, R, st)
            except pb.RangeError:
                continue
            n += 1
            R_eff = Unit.Foot(R) >> Unit.Foot
            s_eff = (Unit.Foot(st) >> Unit.Foot) if st else R_eff / 10
            if s_eff < MAX_STEP or s_eff > R_eff:
                continue        # outside the property's precondition
            nt += 1
            for m in check_rows(rows, R_eff, s_eff, 0.0, 0.0, spec):
                if len(out) < 3:
                    out.append({'msg': f'{drv} range {R!r} ft step {st!r}: {m}', 'key': None, 'range_ft': R, 'step_ft': st})
            if st is None and not any('multiple' in o['msg'] for o in out) and len([r for r in rows if r.flag & 8]) not in (11, 12):
                out.append({'msg': f'{drv} range {R!r} ft, no step: {len(rows)} rows instead of 11', 'key': None})
    return {'v': out, 'n': n, 'nt': cell if nt else None, 'traces': nt, 'states': len(Rs), 'transitions': n,
            'obs': [drv, x1 - x0 > c],
            'sample': {'driver': drv, 'lattice_cell': [x0, x1], 'range_representatives_ft': Rs, 'steps': ['R', 'R/2', 'R/3', 'none', 0.5, 0.7], 'fires_in_precondition': nt}}


def units(cell):
    """the step given as a bare float in the preferred unit and as a quantity in ft / m / in / yd"""
    import py_ballisticcalc as pb
    from py_ballisticcalc import Unit
    drv, form, R, frac = cell[:4]
    rform = cell[4] if len(cell) > 4 else 'Foot'
    spec = DRIVERS[drv]
    shot = make_shot(spec)
    calc = make_calc()
    if rform == 'bare':
        Rq = Unit.Foot(R) >> pb.PreferredUnits.distance        # bare number in the preferred unit
        R_pass = Rq
        Rq = pb.PreferredUnits.distance(Rq)
    else:
        Rq = Unit[rform](Unit.Foot(R) >> Unit[rform])
        R_pass = Rq
    R_eff = Rq >> Unit.Foot
    s_ft = R / frac
    if form == 'float':
        step = Unit.Foot(s_ft) >> pb.PreferredUnits.distance          # bare number in the preferred unit (yards)
        stepq = pb.PreferredUnits.distance(step)
    else:
        u = Unit[form]
        stepq = u(Unit.Foot(s_ft) >> u)
        step = stepq
    s_eff = stepq >> Unit.Foot
    try:
        rows = calc.fire(shot, R_pass, step).trajectory
    except pb.RangeError:
        return {'vac': True}
    out = [{'msg': f'{drv} range {R} ft ({rform}) step {form} {s_eff!r} ft: {m}', 'key': None} for m in check_rows(rows, R_eff, s_eff, 0.0, 0.0, spec)]
    return {'v': out[:3], 'n': 1, 'nt': cell, 'traces': 1, 'states': 1, 'transitions': 1}


def scale(cell):
    import py_ballisticcalc as pb
    from py_ballisticcalc import Unit
    drv, R, stname, time_step, extra = cell
    spec = DRIVERS[drv]
    shot = make_shot(spec)
    calc = make_calc()
    st = {'R': R, 'R/2': R / 2, 'R/3': R / 3, 'none': None, '0.5': 0.5, '0.7': 0.7, 'R/7': R / 7, 'R/10': R / 10}[stname]
    R_eff = Unit.Foot(R) >> Unit.Foot
    s_eff = (Unit.Foot(st) >> Unit.Foot) if st else R_eff / 10
    if s_eff < MAX_STEP or s_eff > R_eff:
        return {'vac': True}
    try:
        rows = _fire(calc, shot, R, st, extra, time_step)
    except pb.RangeError:
        return {'vac': True}
    dt_max = 0.0
    if time_step > 0:
        tr = step_trace(calc, shot, R)
        dt_max = max(b.time - a.time for a, b in zip(tr, tr[1:]))
        # independent of the step-trace seam (which itself relies on time steps being honoured): one integration step advances at most the
        # maximum step through the air, so it lasts at most about MAX_STEP / speed; twice that, on the slowest returned row, is a generous cap
        v_min = min(r.velocity >> Unit.FPS for r in rows)
        if v_min > 0:
            dt_max = min(dt_max, 2 * MAX_STEP / v_min)
    out = [{'msg': f'{drv} range {R} ft step {stname} time step {time_step} extra={extra}: {m}', 'key': None}
           for m in check_rows(rows, R_eff, s_eff, time_step, dt_max, spec, extra)]
    if st is None and time_step <= 0 and not extra and len(rows) not in (11, 12):
        out.append({'msg': f'{drv} range {R} ft, no step: {len(rows)} rows instead of 11', 'key': None})
    return {'v': out[:3], 'n': 1, 'nt': cell, 'traces': 1, 'states': 1, 'transitions': 1, 'obs': [time_step > 0, extra]}


def filt(cell):
    """E3: every continuation of an advance prefix through the real filter vs one interpolated row per multiple"""
    prefix, rs_mult, depth, time_step = cell
    rs = rs_mult * U_
    out = []
    n = 0
    calls = 0
    states = set()
    F = fsm.get_filter_class()
    from py_ballisticcalc import Vector
    V = 1024.0
    for L in range(len(prefix), depth + 1):
        for tail in itertools.product((0.75, 1.0, 1.25), repeat=L - len(prefix)):
            if L == len(prefix) and tail:
                continue
            dxs = list(prefix) + list(tail)
            if len(dxs) != L:
                continue
            # build the point sequence
            pts = [(0.0, 0.0)]
            for dx in dxs:
                x = pts[-1][0] + dx * U_
                pts.append((x, x / V))
            f = F(8, rs, Vector(0.0, -0.1, 0.0), Vector(V, 1.0, 0.0), time_step)
            f.setup_seen_zero(-0.1, 0.001, 0.0)
            got = []
            for (x, t) in pts:
                f.clear_current_flag()
                d = f.should_record(Vector(x, -0.1, 0.0), Vector(V, 1.0, 0.0), 1100.0, t)
                calls += 1
                states.add(fsm.filter_state(f)[1:5] + (round(f.next_record_distance - x, 9),))
                if d is not None:
                    got.append((d.position.x, d.time, int(f.current_flag), x))
            n += 1
            # reference: one row per multiple <= last x, interpolated in time
            exp = []
            k = 0
            xs = [p[0] for p in pts]
            while k * rs <= xs[-1]:
                exp.append(k * rs)
                k += 1
            rng = [(x, t) for x, t, fl, _ in got if fl & 8]
            if time_step <= 0:
                ok = len(rng) == len(exp) and all(abs(a[0] - m) <= 1e-12 and abs(a[1] - m / V) <= 1e-12 for a, m in zip(rng, exp))
                if not ok and len(out) < 3:
                    out.append({'msg': f'filter with range step {rs} fed advances {dxs} (x {U_} ft) emitted RANGE rows at {[a[0] for a in rng]}, expected one per multiple {exp}', 'key': None})
            else:
                # every multiple exactly once, plus time rows; gaps bounded
                for m in exp:
                    if sum(1 for a in rng if abs(a[0] - m) <= 1e-12) != 1 and len(out) < 3:
                        out.append({'msg': f'filter with range step {rs}, time step {time_step} fed advances {dxs}: multiple {m} recorded {sum(1 for a in rng if abs(a[0] - m) <= 1e-12)} times', 'key': None})
                        break
                ts = [a[1] for a in rng]
                dtm = max(1.25 * U_ / V, 0)
                # only gaps between consecutive emitted rows while the trace continues are bounded
                for a, b in zip(ts, ts[1:]):
                    if b - a > time_step + 2 * dtm + 1e-15 and len(out) < 3:
                        out.append({'msg': f'filter time step {time_step}: rows {a} s and {b} s further apart than the step plus two integration steps (advances {dxs})', 'key': None})
                        break
    return {'v': out, 'n': n, 'nt': cell if n else None, 'traces': n, 'states': len(states), 'transitions': calls}


def manyrows(cell):
    """range cards with thousands of rows (fine step over a long range, decimal numbers in metres / yards): the quotient range / step is then an
    integer only up to float rounding, off by more than any absolute guard"""
    import py_ballisticcalc as pb
    from py_ballisticcalc import Unit
    unit, R, st = cell
    u = Unit[unit]
    shot = make_shot(DRIVERS['nowind'])
    calc = make_calc()
    try:
        rows = calc.fire(shot, u(R), u(st)).trajectory
    except pb.RangeError:
        return {'vac': True}
    R_eff, s_eff = u(R) >> Unit.Foot, u(st) >> Unit.Foot
    out = [{'msg': f'range {R} {unit} step {st} {unit} ({R_eff / s_eff!r} intervals): {m}', 'key': None} for m in check_rows(rows, R_eff, s_eff, 0.0, 0.0, DRIVERS['nowind'])]
    return {'v': out[:3], 'n': 1, 'nt': cell, 'traces': 1, 'states': 1, 'transitions': 1, 'obs': [len(rows) > 5000]}


PARTS = {'align': align, 'units': units, 'scale': scale, 'filter': filt, 'manyrows': manyrows}


def plan(tier):
    near = range(0, 50) if tier == 'thorough' else range(0, 50, 2)
    far = range(0, 40) if tier == 'thorough' else range(0, 8)
    al = [[d, 'near', i] for d in DRIVERS for i in near] + [[d, 'far', i] for d in DRIVERS for i in far]
    un = [[d, form, R, frac] for d in ('nowind', 'tail20', 'quarter') for form in ('float', 'Foot', 'Meter', 'Inch', 'Yard')
          for R in (10.0, 30.0, 100.0, 300.0) for frac in (1, 2, 3, 4, 7, 10)]
    un += [[d, form, R, frac, rform] for d in ('nowind', 'tail20') for form in ('float', 'Meter') for R in (10.0, 100.0, 300.0) for frac in (1, 3, 10)
           for rform in ('bare', 'Meter', 'Yard', 'Inch')]
    sc = []
    ranges = [1.0, 10.0, 300.0, 3000.0] + ([5280.0, 10560.0] if tier == 'thorough' else [])
    for d in (DRIVERS if tier == 'thorough' else ('nowind', 'tail20', 'quarter', 'look20', 'cantneg25', 'cant200look')):
        for R in ranges:
            for stn in ('R', 'R/2', 'R/3', 'none', '0.5', '0.7', 'R/7'):
                if stn in ('0.5', '0.7') and R > 3000:
                    continue
                sc.append([d, R, stn, 0.0, False])
                if R <= 300.0:
                    for ts in (1e-12, 1e-4, 1e-3, 1e-2):
                        for extra in (False, True):
                            sc.append([d, R, stn, ts, extra])
    # time steps chosen relative to the flight time of one record interval at the muzzle (k x step / mv): with k > 1 the first intervals are
    # shorter than the time step and later ones (slower bullet) longer
    for d in (('nowind', 'tail60slow') if tier == 'quick' else DRIVERS):
        mv = dict(BASE, **DRIVERS[d])['mv']
        for R in (3000.0,) if tier == 'quick' else (3000.0, 1500.0):
            for stn, st in (('R/10', R / 10), ('R/3', R / 3)):
                for k in (0.5, 1.1, 1.5, 2.5):
                    sc.append([d, R, stn, k * st / mv, False])
                    sc.append([d, R, stn, k * st / mv, True])
    depth = 7 if tier == 'quick' else 10
    fl = [[list(p), rsm, depth, 0.0] for p in itertools.product((0.75, 1.0, 1.25), repeat=2) for rsm in (2.0, 2.5, 4.0)]
    fl += [[list(p), rsm, min(depth, 8), ts] for p in itertools.product((0.75, 1.0, 1.25), repeat=2) for rsm in (2.0, 4.0)
           for ts in (2.0 ** -13, 2.0 ** -11)]
    # short sequences below the prefix length
    fl += [[[a], rsm, 1, 0.0] for a in (0.75, 1.0, 1.25) for rsm in (2.0, 2.5, 4.0)]
    mr = [[unit, R, st] for unit in ('Meter', 'Yard') for R in ((700.0, 1000.0, 1234.5, 1466.2, 1500.3, 1999.9, 900.7) if tier == 'quick' else (700.0, 1000.0, 1234.5, 1466.2, 1500.3, 1999.9, 2000.0, 900.7))
          for st in (0.2, 0.3, 0.7) + ((0.25, 0.9) if tier == 'thorough' else ())]
    return [('align', al), ('units', un), ('scale', sc), ('filter', fl), ('manyrows', mr)]

"""C09 - drag used by the solver is faithful to the drag table and BC definition.
Engine E1 with a critical-point alphabet (both sides of every node and midpoint, where the selected parabola changes)."""
import hashlib
import itertools
import json
import math
import os

from mc.core import HarnessError, VERIF

PID = 'C09'
# thread bodies (defined with engine E4, mc/checks/c10_sched.py) that exercise this property's code; explored after the parts below
SCHED_SETS = [('fire||fire', 'line'), ('fire||fire(G1)', 'line')]
LEVEL = 'exploration'
ENGINE = 'E1'
TECHNIQUE = 'bounded exhaustive enumeration of all custom tables (3..5 nodes over a 6-Mach x 3-CD alphabet) and the nine shipped tables at every critical point (nodes, midpoints, +-1 ulp, interior grid, beyond the table) against a Lagrange-parabola reference; band/positivity decided analytically per identified quadratic piece'
RULE = ('shipped cells = 9 tables x BC {0.001,.223,1,12}; custom cells = every strictly ascending node set of size 3..5 over Mach {0,.5,1,1.2,2,5} and 5-node tables with nodes 0.005 / 0.001 Mach apart (incl. a dense cluster inside a coarse table) '
        'x CD in {.1,.3,.5}^n (4428 tables in the quick tier); each cell queries every node, node+-1ulp, every midpoint, midpoint+-1ulp, 15 interior points per '
        'half interval and {1.5,3,10} x last node; sequence cells = six custom tables one after the other in temporaries / in one re-filled list; rebind cells = one long-lived calculator, drag model BC / table edited in place or model replaced between calls x 3 tables x 3 BC pairs; api cell = all nine tables digested before/after a battery of public calls; '
        'non-trivial = table with >= 4 nodes (so interior parabolas differ) or a shipped table')
ASSUMPTIONS = ['published tables: identity with the pinned snapshot digest (golden/drag_tables.json) is what is checked, no independent copy exists offline',
               'the solver evaluates one quadratic per half interval (identified at 17+ points per piece, then bounded in closed form)',
               'below the first node of a table that does not start at Mach 0 the chord or the first parabola is accepted']

K_REF = 0.076474 * math.pi / (8 * 144)


def lagr(pts, x):
    (x1, y1), (x2, y2), (x3, y3) = pts
    return (y1 * (x - x2) * (x - x3) / ((x1 - x2) * (x1 - x3)) + y2 * (x - x1) * (x - x3) / ((x2 - x1) * (x2 - x3))
            + y3 * (x - x1) * (x - x2) / ((x3 - x1) * (x3 - x2)))


def lagr_coef(pts):
    (x1, y1), (x2, y2), (x3, y3) = pts
    d1, d2, d3 = (x1 - x2) * (x1 - x3), (x2 - x1) * (x2 - x3), (x3 - x1) * (x3 - x2)
    a = y1 / d1 + y2 / d2 + y3 / d3
    b = -(y1 * (x2 + x3) / d1 + y2 * (x1 + x3) / d2 + y3 * (x1 + x2) / d3)
    c = y1 * x2 * x3 / d1 + y2 * x1 * x3 / d2 + y3 * x1 * x2 / d3
    return a, b, c


def line(p, q, x):
    return p[1] + (q[1] - p[1]) * (x - p[0]) / (q[0] - p[0])


def _solver(tab, bc):
    import py_ballisticcalc as pb
    c = pb.Calculator()
    shot = pb.Shot(pb.Weapon(), pb.Ammo(pb.DragModel(bc, tab), pb.Unit.FPS(2000)))
    try:
        c._calc._init_trajectory(shot)
        f = c._calc.drag_by_mach
    except AttributeError as e:
        raise HarnessError(f'seam TrajectoryCalc._init_trajectory/drag_by_mach missing: {e}')
    return f


def queries(pts):
    n = len(pts)
    qs = []
    for i, (x, y) in enumerate(pts):
        qs += [x, math.nextafter(x, 9), math.nextafter(x, -9)]
        if i < n - 1:
            x2 = pts[i + 1][0]
            mid = (x + x2) / 2
            qs += [mid, math.nextafter(mid, 9), math.nextafter(mid, -9)] + [x + (x2 - x) * j / 32 for j in range(1, 32)]
    qs += [pts[-1][0] * 1.5, pts[-1][0] * 3, pts[-1][0] * 10]
    return [q for q in qs if q >= 0]


EPS = 2.220446049250313e-16


def slack(tri, q):
    """rounding allowance for evaluating the parabola through three nodes in monomial form a q^2 + b q + c (what "lies on the parabola" can mean
    in floating point): the three terms cancel down to the value, and the determinant of the fit cancels by |x| / spacing. Negligible (< 1e-12)
    for tables spaced like the shipped ones; matters for custom tables with nodes a few thousandths of a Mach apart."""
    a, b, c = lagr_coef(tri)
    xs = [x for x, _ in tri]
    sp = min(xs[1] - xs[0], xs[2] - xs[1])
    cond = 1.0 + max(abs(x) for x in xs + [q]) / sp
    (x1, y1), (x2, y2), (x3, y3) = tri
    # the reference (Lagrange form) cancels as well when q is far outside closely spaced nodes
    ref = (abs(y1 * (q - x2) * (q - x3) / ((x1 - x2) * (x1 - x3))) + abs(y2 * (q - x1) * (q - x3) / ((x2 - x1) * (x2 - x3)))
           + abs(y3 * (q - x1) * (q - x2) / ((x3 - x1) * (x3 - x2))))
    return 64 * EPS * cond * (abs(a) * q * q + abs(b) * abs(q) + abs(c)) + 16 * EPS * ref


def candidates(pts, q):
    """admissible reference values at q: a parabola through three consecutive nodes that include both neighbours of q
    (chord in the first interval, last three nodes beyond the table); each with its rounding allowance"""
    n = len(pts)
    k = max((j for j in range(n) if pts[j][0] <= q), default=-1)
    cands = []
    if q >= pts[-1][0]:
        cands.append(('last3', lagr(pts[n - 3:n], q), slack(pts[n - 3:n], q)))
    if 0 <= k < n - 1:
        if k - 1 >= 0:
            cands.append((f'par{k - 1}', lagr(pts[k - 1:k + 2], q), slack(pts[k - 1:k + 2], q)))
        if k + 2 < n:
            cands.append((f'par{k}', lagr(pts[k:k + 3], q), slack(pts[k:k + 3], q)))
        if k == 0:
            cands.append(('chord0', line(pts[0], pts[1], q), slack(pts[0:3], q)))
    if k == -1:
        cands += [('chord0', line(pts[0], pts[1], q), slack(pts[0:3], q)), ('par0', lagr(pts[0:3], q), slack(pts[0:3], q))]
    return cands


def node_slack(pts, q):
    """allowance at a tabulated Mach number: the largest allowance of a parabola through it"""
    i = [x for x, _ in pts].index(q)
    n = len(pts)
    return max(slack(pts[j:j + 3], q) for j in range(max(0, i - 2), min(i, n - 3) + 1))


def check_table(tab, bc, label):
    f = _solver(tab, bc)
    pts = [(float(p['Mach']), float(p['CD'])) for p in tab]
    out = []
    nq = 0
    for q in queries(pts):
        nq += 1
        raw = f(q)
        cd = raw * bc / K_REF
        exact = [y for (x, y) in pts if x == q]
        if exact:
            ns = node_slack(pts, q)
            ok = abs(cd - exact[0]) <= 1e-5 * exact[0] + 1e-12 + ns
            ok2 = abs(raw - exact[0] * K_REF / bc) <= (1e-5 * exact[0] + ns) * K_REF / bc
            if not (ok and ok2):
                out.append({'msg': f'{label} BC {bc}: retardation factor at tabulated Mach {q} is {raw!r}, CD x rho0 x pi/(8x144)/BC = {exact[0] * K_REF / bc!r}', 'key': None})
        else:
            cs = candidates(pts, q)
            if not any(abs(cd - v) <= 1e-5 * abs(v) + 1e-9 + sl for _, v, sl in cs):
                out.append({'msg': f'{label} BC {bc}: Cd used at Mach {q!r} is {cd!r}; admissible parabolas/chord give {[c_[:2] for c_ in cs]}', 'key': None})
        if len(out) >= 3:
            break
    return out, nq


def tight_identity(tab, label):
    """with BC=1 the constant cancels: compare the coefficient itself tightly (1e-9) and identify the piece per half interval"""
    f = _solver(tab, 1.0)
    pts = [(float(p['Mach']), float(p['CD'])) for p in tab]
    k_code = None
    # the library's own constant (2.08551e-4) differs from K_REF by 2e-6 relative: factor it out using the first node
    for x, y in pts:
        if y > 0:
            k_code = f(x) / y
            break
    out = []
    if abs(k_code / K_REF - 1) > 1e-5:
        out.append({'msg': f'{label}: retardation constant {k_code!r} differs from rho0*pi/(8*144) = {K_REF!r}', 'key': None})
        return out, {}, 0
    pieces = {}   # (interval index, half) -> candidate name
    nq = 0
    for q in queries(pts):
        nq += 1
        cd = f(q) / k_code
        exact = [y for (x, y) in pts if x == q]
        if exact:
            if abs(cd - exact[0]) > 1e-12 + 1e-12 * exact[0] + node_slack(pts, q):
                out.append({'msg': f'{label}: Cd at tabulated Mach {q} is {cd!r}, table says {exact[0]!r}', 'key': None})
            continue
        cs = candidates(pts, q)
        hit = [nm for nm, v, sl in cs if abs(cd - v) <= 1e-9 * max(1.0, abs(v)) + sl]
        if not hit:
            out.append({'msg': f'{label}: Cd used at Mach {q!r} is {cd!r}; admissible parabolas/chord give {[c_[:2] for c_ in cs]}', 'key': None})
            if len(out) >= 3:
                break
            continue
        k = max((j for j in range(len(pts)) if pts[j][0] <= q), default=-1)
        if 0 <= k < len(pts) - 1:
            mid = (pts[k][0] + pts[k + 1][0]) / 2
            half = 0 if q < mid else (1 if q > mid else None)
            if half is not None:
                prev = pieces.get((k, half))
                pieces[(k, half)] = set(hit) if prev is None else (prev & set(hit))
    return out, pieces, nq


def band_analytic(pts, pieces, label):
    """positivity and 5 % band decided in closed form on every identified quadratic piece (for every Mach, not only the grid)"""
    out = []
    n = len(pts)
    worst = 0.0
    for (k, half), names in sorted(pieces.items()):
        if not names:
            out.append({'msg': f'{label}: interval {k} half {half} is not a single admissible quadratic', 'key': None})
            continue
        x0, y0 = pts[k]
        x1, y1 = pts[k + 1]
        mid = (x0 + x1) / 2
        lo, hi = (x0, mid) if half == 0 else (mid, x1)
        sl = (y1 - y0) / (x1 - x0)          # chord l(x) = y0 + sl (x - x0)
        ok_any = False
        dev_best = None
        for nm in names:
            if nm == 'chord0':
                a, b, c = 0.0, sl, y0 - sl * x0
            else:
                i = int(nm[3:])
                a, b, c = lagr_coef(pts[i:i + 3])
            # g(x) = q(x) - l(x); need |g| <= 0.05 l and q > 0 on [lo, hi]
            ga, gb, gc = a, b - sl, c - (y0 - sl * x0)
            xs = [lo, hi]
            for s in (+1, -1):   # extrema of g -+ 0.05 l are where derivative zero: 2 ga x + gb -+ 0.05 sl = 0
                if ga != 0:
                    xv = -(gb - s * 0.05 * sl) / (2 * ga)
                    if lo < xv < hi:
                        xs.append(xv)
            dev = max(abs(ga * x * x + gb * x + gc) / (y0 + sl * (x - x0)) for x in xs)
            pos = all(a * x * x + b * x + c > 0 for x in xs + ([-b / (2 * a)] if a != 0 and lo < -b / (2 * a) < hi else []))
            dev_best = dev if dev_best is None else min(dev_best, dev)
            if dev <= 0.05 and pos:
                ok_any = True
        worst = max(worst, dev_best or 0.0)
        if not ok_any:
            out.append({'msg': f'{label}: between Mach {x0} and {x1} (half {half}) the Cd used deviates {dev_best:.4f} from the linear interpolant (> 5 %) or is not positive', 'key': None})
    return out[:3], worst


def digest(tab):
    canon = json.dumps([[float(p['Mach']).hex(), float(p['CD']).hex()] for p in tab])
    return hashlib.sha256(canon.encode()).hexdigest()


def golden():
    return json.load(open(os.path.join(VERIF, 'golden', 'drag_tables.json')))['tables']


def shipped(cell):
    import py_ballisticcalc.drag_tables as dt
    name, bc = cell
    tab = getattr(dt, 'Table' + name)
    pts = [(float(p['Mach']), float(p['CD'])) for p in tab]
    out = []
    g = golden()[name]
    if digest(tab) != g['sha256']:
        out.append({'msg': f'shipped table {name} differs from the published table pinned in golden/drag_tables.json', 'key': None})
    if pts[0][0] != 0.0 or any(a[0] >= b[0] for a, b in zip(pts, pts[1:])) or any(y <= 0 for _, y in pts):
        out.append({'msg': f'shipped table {name} does not ascend strictly from Mach 0 with positive Cd', 'key': None})
    o, nq = check_table(tab, bc, name)
    out += o
    extra = {}
    if bc == 1.0:
        o, pieces, nq2 = tight_identity(tab, name)
        out += o
        nq += nq2
        if not o:
            o, worst = band_analytic(pts, pieces, name)
            out += o
            extra['max_dev_from_linear'] = worst
    if digest(tab) != g['sha256']:
        out.append({'msg': f'querying the solver altered shipped table {name}', 'key': None})
    return {'v': out[:4], 'n': nq, 'nt': cell, 'extra': extra}


def custom(cell):
    ms, cds = cell
    tab = [{'Mach': m, 'CD': c} for m, c in zip(ms, cds)]
    out, pieces, nq = tight_identity(tab, f'custom {ms} {cds}')
    o2, nq2 = check_table(tab, 0.223, f'custom {ms} {cds}')
    return {'v': (out + o2)[:3], 'n': nq + nq2, 'nt': cell if len(ms) >= 4 else None, 'obs': [len(ms), ms[0] == 0]}


def api(cell):
    """exercise every public entry point, then compare all nine module-level tables with their digests"""
    import py_ballisticcalc as pb
    import py_ballisticcalc.drag_tables as dt
    U = pb.Unit
    g = golden()
    names = list(g)
    before = {n: digest(getattr(dt, 'Table' + n)) for n in names}
    out = []
    for n in names:
        tab = getattr(dt, 'Table' + n)
        dm = pb.DragModel(0.3, tab, U.Grain(168), U.Inch(0.308), U.Inch(1.2))
        mb = pb.DragModelMultiBC([pb.BCPoint(0.3, Mach=2.0), pb.BCPoint(0.25, V=U.FPS(1500))], tab, U.Grain(168), U.Inch(0.308))
        mb2 = pb.DragModelMultiBC([pb.BCPoint(0.3, Mach=2.0)], dm.drag_table)
        for m in (dm, mb, mb2):
            shot = pb.Shot(pb.Weapon(U.Inch(2), U.Inch(10)), pb.Ammo(m, U.FPS(2600)), winds=[pb.Wind(U.MPH(5), U.Degree(90))])
            calc = pb.Calculator()
            calc.set_weapon_zero(shot, U.Yard(50))
            hr = calc.fire(shot, U.Yard(100), U.Yard(25), extra_data=True)
            hr.danger_space(U.Yard(50), U.Inch(10))
            calc.cdm
    pb.get_drag_tables_names()
    for n in names:
        after = digest(getattr(dt, 'Table' + n))
        if after != before[n]:
            out.append({'msg': f'library calls altered the module-level table {n}', 'key': None})
        if after != g[n]['sha256']:
            out.append({'msg': f'table {n} differs from the pinned published table', 'key': None})
    return {'v': out, 'n': 9 * 3 * 3, 'nt': 'api'}


def rebind(cell):
    """the drag used is that of the drag model AS IT IS when the call is made: one long-lived calculator, the model's BC / table edited or the
    model replaced between calls (BC truing loop)"""
    import py_ballisticcalc as pb
    import py_ballisticcalc.drag_tables as dt
    U = pb.Unit
    tname, bc1, bc2, kind = cell
    tab = getattr(dt, 'Table' + tname)
    calc = pb.Calculator()
    dm = pb.DragModel(bc1, tab)
    shot = pb.Shot(pb.Weapon(), pb.Ammo(dm, U.FPS(2000)))
    calc.fire(shot, U.Yard(100), U.Yard(50))
    cd_scale = 1.0
    if kind == 'set_bc':
        dm.BC = bc2
    elif kind == 'new_model':
        shot.ammo.dm = pb.DragModel(bc2, tab)
    elif kind == 'new_ammo':
        shot.ammo = pb.Ammo(pb.DragModel(bc2, tab), U.FPS(2000))
    elif kind == 'edit_table':
        bc2 = bc1
        cd_scale = 1.25
        for p_ in dm.drag_table:
            p_.CD = p_.CD * cd_scale
    rows = calc.fire(shot, U.Yard(300), U.Yard(100)).trajectory
    fresh_dm = pb.DragModel(bc2, [{'Mach': q['Mach'], 'CD': q['CD'] * cd_scale} for q in tab])
    exp = pb.Calculator().fire(pb.Shot(pb.Weapon(), pb.Ammo(fresh_dm, U.FPS(2000))), U.Yard(300), U.Yard(100)).trajectory
    out = []
    from mc.world import traj_bits
    if traj_bits(rows) != traj_bits(exp):
        out.append({'msg': f'{tname}: calculator used with BC {bc1}, then the model changed ({kind}, BC {bc2}, Cd x{cd_scale}): trajectory differs from a fresh calculator and model '
                           f'(velocity at 300 yd {rows[-1].velocity >> U.FPS!r} vs {exp[-1].velocity >> U.FPS!r})', 'key': None})
    # the seam of the property: coefficient after re-initialisation
    try:
        calc._calc._init_trajectory(shot)
        got = calc._calc.drag_by_mach(tab[10]['Mach'])
    except AttributeError as e:
        raise HarnessError(str(e))
    want = tab[10]['CD'] * cd_scale * K_REF / bc2
    if abs(got - want) > 1e-5 * want:
        out.append({'msg': f'{tname}: after {kind} the retardation factor at Mach {tab[10]["Mach"]} is {got!r}, Cd x rho0 x pi/(8x144)/BC = {want!r}', 'key': None})
    return {'v': out, 'n': 3, 'nt': cell}


SEQ_TABLES = [([0, 1, 2, 5], [0.1, 0.3, 0.5, 0.3]), ([0.5, 1, 1.2, 2], [0.5, 0.1, 0.3, 0.1]), ([0, 0.5, 1, 1.2, 5], [0.3, 0.3, 0.5, 0.1, 0.1]),
              ([0, 1, 2, 5], [0.5, 0.1, 0.1, 0.5]), ([1, 1.2, 2], [0.1, 0.5, 0.3]), ([0, 0.5, 1, 2, 5], [0.1, 0.5, 0.1, 0.5, 0.1])]


def sequence(cell):
    """"any custom table": also the one a program builds after it has thrown another one away, or in a list it re-fills in place - custom tables
    are temporaries. Six tables one after the other, (temps) each in a new list that is dropped afterwards, so that addresses get re-used,
    (refill) all in one list object emptied and re-filled; every one checked like a custom cell."""
    import gc
    kind, bc, order = cell
    seq = [SEQ_TABLES[i] for i in order]
    out = []
    nq = 0
    work = []
    for rnd in range(2):
        for ms, cds in seq:
            if kind == 'temps':
                tab = [{'Mach': m, 'CD': c} for m, c in zip(ms, cds)]
            else:
                work.clear()
                work.extend({'Mach': m, 'CD': c} for m, c in zip(ms, cds))
                tab = work
            o, n = check_table(tab, bc, f'{kind} sequence, table {ms} {cds}')
            nq += n
            out += o
            del tab
            gc.collect()
            if out:
                break
    return {'v': out[:3], 'n': nq, 'nt': cell}


PARTS = {'shipped': shipped, 'custom': custom, 'api': api, 'rebind': rebind, 'sequence': sequence}
MACHS = (0, 0.5, 1, 1.2, 2, 5)
CDS = (0.1, 0.3, 0.5)


def plan(tier):
    sh = [[n, bc] for n in ['G1', 'G7', 'G2', 'G5', 'G6', 'G8', 'GI', 'GS', 'RA4'] for bc in (1.0, 0.001, 0.223, 12.0)]
    cu = []
    for n in (3, 4, 5):
        for ms in itertools.combinations(MACHS, n):
            for cds in itertools.product(CDS, repeat=n):
                cu.append([list(ms), list(cds)])
    # closely spaced nodes (custom tables measured with Doppler radar are this dense): 5 nodes 0.005 / 0.001 Mach apart, and a dense cluster
    # inside a coarse table; the rounding allowance of the oracle scales with the conditioning of the fit (slack())
    dense = [[b + i * sp for i in range(5)] for sp in (0.005, 0.001) for b in (0.9, 2.0)] + [[0, 1.0, 1.005, 1.01, 3.0]]
    if tier == 'thorough':
        dense += [[b + i * sp for i in range(5)] for sp in (0.008, 0.002) for b in (0.5, 1.0, 2.5)] + [[0.5, 0.502, 1.0, 1.5, 1.501]]
    for ms in dense:
        for cds in itertools.product(CDS, repeat=5):
            cu.append([list(ms), list(cds)])
    if tier == 'thorough':
        for ms in itertools.combinations((0.3, 0.7, 0.9, 1.0, 1.1, 3.0), 4):
            for cds in itertools.product((0.2, 0.6), repeat=4):
                cu.append([list(ms), list(cds)])
    rb = [[t, b1, b2, k] for t in ('G7', 'G1', 'RA4') for b1, b2 in ((0.3, 0.22), (0.22, 0.45), (1.0, 0.1)) for k in ('set_bc', 'new_model', 'new_ammo', 'edit_table')]
    sq = [[kind, bc, list(order)] for kind in ('temps', 'refill') for bc in (0.223, 1.0) for order in ((0, 1, 2, 3, 4, 5), (5, 3, 1, 4, 2, 0), (0, 3, 0, 3, 1, 1))]
    return [('shipped', sh), ('custom', cu), ('api', [0]), ('rebind', rb), ('sequence', sq)]

"""C17 - powder temperature sensitivity is linear, anchored and reproduces calibration.
Engine E1, full product."""
import itertools

PID = 'C17'
LEVEL = 'exploration'
ENGINE = 'E1'
TECHNIQUE = 'bounded exhaustive enumeration (full product baseline x signed second measurement x query temperature x unit x on/off) against the line through both measurements'
RULE = ('cells = baseline (v0, T0) x second measurement in all four sign combinations (faster/slower x warmer/colder, 3 magnitudes each) '
        'x temperature unit; every cell queries 19 temperatures with sensitivity on and off; launch part fires a 3-ft shot for '
        'every (modifier, baseline, air temperature, explicit powder temperature or none); non-trivial = second measurement '
        'differs from the baseline in both velocity and temperature')
ASSUMPTIONS = ['grid values only', 'linearity tolerance 1e-12 relative, calibration reproduction 1e-9 relative']

V0 = [800.0, 2750.0, 3300.0]
T0 = [('Celsius', 15.0), ('Fahrenheit', 59.0), ('Celsius', 0.0), ('Celsius', -10.0)]
DV = [-60.0, -20.0, -5.0, 5.0, 20.0, 60.0]
DT = [-25.0, -15.0, -3.0, 3.0, 10.0, 30.0]
TUNITS = ['Celsius', 'Fahrenheit', 'Kelvin', 'Rankin']
QUERY_C = [float(t) for t in range(-40, 51, 5)]


def U(n):
    from py_ballisticcalc import Unit
    return Unit[n]


def calib(cell):
    import py_ballisticcalc as pb
    v0, (t0u, t0), dv, dt, qun = cell
    FPS, C = pb.Unit.FPS, pb.Unit.Celsius
    out = []
    n = 0
    dm = pb.DragModel(0.3, pb.TableG7)
    t0c = U(t0u)(t0) >> C
    t1c = t0c + dt
    qu = U(qun)

    def temp(c):  # explicit quantity of c Celsius, expressed in the cell's unit
        return qu(C(c) >> qu)

    # sensitivity disabled: stated velocity at every temperature, whatever the modifier
    a_off = pb.Ammo(dm, FPS(v0), U(t0u)(t0), temp_modifier=0.02, use_powder_sensitivity=False)
    a_off.calc_powder_sens(FPS(v0 + dv), temp(t1c))
    for q in QUERY_C:
        n += 1
        got = a_off.get_velocity_for_temp(temp(q)) >> FPS
        if abs(got - v0) > 1e-12 * v0:
            out.append({'msg': f'sensitivity off: velocity at {q} C = {got}, stated {v0}', 'key': None})
            break
    # enabled with a stated modifier: linear and anchored
    for mod in (0.0, 0.015, -0.01, 1.5, -1.2, 1.0):      # a modifier is a fraction per 15 C, whatever its size
        a = pb.Ammo(dm, FPS(v0), U(t0u)(t0), temp_modifier=mod, use_powder_sensitivity=True)
        for q in QUERY_C + [t0c]:
            n += 1
            got = a.get_velocity_for_temp(temp(q)) >> FPS
            exp = v0 * (1 + mod * (q - t0c) / 15.0)
            if abs(got - exp) > 1e-12 * v0 + 1e-9 * abs(exp - v0):
                out.append({'msg': f'modifier {mod}: v({q} C) = {got!r}, line gives {exp!r} (v0={v0} at {t0c} C)', 'key': None})
                break
    # bare numbers are temperatures in the preferred unit (deg F by default) - zero included
    a_b = pb.Ammo(dm, FPS(v0), U(t0u)(t0), temp_modifier=0.015, use_powder_sensitivity=True)
    for b in (0, 0.0, 59, -40, 100):
        n += 1
        got, exp = a_b.get_velocity_for_temp(b) >> FPS, a_b.get_velocity_for_temp(pb.Unit.Fahrenheit(b)) >> FPS
        if got != exp:
            out.append({'msg': f'v(bare {b!r}) = {got!r} but v(Fahrenheit({b})) = {exp!r}: a bare number is that number in the preferred unit', 'key': None})
            break
    a_c = pb.Ammo(dm, FPS(v0), U(t0u)(t0), use_powder_sensitivity=True)
    a_d = pb.Ammo(dm, FPS(v0), U(t0u)(t0), use_powder_sensitivity=True)
    if abs(t0c - (pb.Unit.Fahrenheit(0) >> C)) > 1:
        n += 1
        if a_c.calc_powder_sens(FPS(v0 - 30), 0) != a_d.calc_powder_sens(FPS(v0 - 30), pb.Unit.Fahrenheit(0)):
            out.append({'msg': 'calc_powder_sens with bare temperature 0 differs from Fahrenheit(0)', 'key': None})
        elif abs((a_c.get_velocity_for_temp(0) >> FPS) - (v0 - 30)) > 1e-9 * v0:
            out.append({'msg': f'calibrated with (v0-30 fps, bare 0): v(bare 0) = {a_c.get_velocity_for_temp(0) >> FPS!r}, second measurement {v0 - 30}', 'key': None})
    # the two measurements may be expressed in different velocity units, and the stated velocity may have been re-displayed in place
    ref_mod = pb.Ammo(dm, FPS(v0), U(t0u)(t0), use_powder_sensitivity=True).calc_powder_sens(FPS(v0 + dv), temp(t1c))
    for u0n, u1n, redisplay in (('MPS', 'FPS', None), ('FPS', 'MPS', None), ('KMH', 'KT', None), ('FPS', 'FPS', 'MPS'), ('MPS', 'MPS', 'FPS')):
        n += 1
        u0, u1 = U(u0n), U(u1n)
        a_u = pb.Ammo(dm, u0(FPS(v0) >> u0), U(t0u)(t0), use_powder_sensitivity=True)
        if redisplay:
            a_u.mv << U(redisplay)
        m_u = a_u.calc_powder_sens(u1(FPS(v0 + dv) >> u1), temp(t1c))
        g_u = a_u.get_velocity_for_temp(temp(t1c)) >> FPS
        if abs(g_u - (v0 + dv)) > 1e-9 * v0 or abs(m_u - ref_mod) > 1e-9 * max(abs(ref_mod), 1e-3):
            out.append({'msg': f'baseline given in {u0n}' + (f' (re-displayed in {redisplay})' if redisplay else '') + f', second measurement in {u1n}: modifier {m_u!r} '
                               f'(all in fps: {ref_mod!r}), velocity at the second temperature {g_u!r} fps instead of {v0 + dv}', 'key': None})
            break
    # calibration replaces whatever modifier the ammunition had: one stated at construction, or one from an earlier calibration
    for pre in ('stated 0.02', 'stated -0.01', 'calibrated before with another measurement', 'calibrated twice'):
        n += 1
        a_r = pb.Ammo(dm, FPS(v0), U(t0u)(t0), temp_modifier={'stated 0.02': 0.02, 'stated -0.01': -0.01}.get(pre, 0.0), use_powder_sensitivity=True)
        if pre == 'calibrated before with another measurement':
            a_r.calc_powder_sens(FPS(v0 - 0.5 * dv + 7.0), temp(t1c + (3.0 if abs(t1c + 3.0 - t0c) > 0.1 else 4.5)))      # (never the baseline temperature itself)
        if pre == 'calibrated twice':
            a_r.calc_powder_sens(FPS(v0 + dv), temp(t1c))
        m_r = a_r.calc_powder_sens(FPS(v0 + dv), temp(t1c))
        g_r = a_r.get_velocity_for_temp(temp(t1c)) >> FPS
        if abs(g_r - (v0 + dv)) > 1e-9 * v0 or m_r != a_r.temp_modifier:
            out.append({'msg': f'ammunition with a modifier already in place ({pre}) calibrated with {v0 + dv} fps @ {t1c} C: gives {g_r!r} fps at that temperature (modifier {a_r.temp_modifier!r})', 'key': None})
            break
    # calibrated from a second measurement
    a = pb.Ammo(dm, FPS(v0), U(t0u)(t0), use_powder_sensitivity=True)
    m = a.calc_powder_sens(FPS(v0 + dv), temp(t1c))
    n += 1
    if m != a.temp_modifier:
        out.append({'msg': 'calc_powder_sens return value differs from the stored modifier', 'key': None})
    got1 = a.get_velocity_for_temp(temp(t1c)) >> FPS
    got0 = a.get_velocity_for_temp(temp(t0c)) >> FPS
    if abs(got1 - (v0 + dv)) > 1e-9 * v0:
        out.append({'msg': f'baseline {v0} fps @ {t0c} C calibrated with {v0 + dv} fps @ {t1c} C (modifier {m!r}) gives '
                           f'{got1!r} fps at {t1c} C instead of the second measurement', 'key': None})
    if abs(got0 - v0) > 1e-9 * v0:
        out.append({'msg': f'calibrated ammunition gives {got0!r} at the baseline temperature instead of {v0}', 'key': None})
    # and it is the line through both measurements everywhere
    for q in QUERY_C:
        n += 1
        got = a.get_velocity_for_temp(temp(q)) >> FPS
        exp = v0 + dv * (q - t0c) / dt
        if abs(got - exp) > 1e-9 * v0 * max(1.0, abs((q - t0c) / dt)):
            out.append({'msg': f'calibrated line: v({q} C) = {got!r}, line through both measurements gives {exp!r}', 'key': None})
            break
    return {'v': out[:4], 'n': n, 'nt': cell, 'obs': [dv > 0, dt > 0]}


def same(cell):
    """identical second measurement cannot define a line: must raise, and must not change the modifier"""
    import py_ballisticcalc as pb
    v0, which = cell
    FPS, C = pb.Unit.FPS, pb.Unit.Celsius
    a = pb.Ammo(pb.DragModel(0.3, pb.TableG7), FPS(v0), C(15), temp_modifier=0.01, use_powder_sensitivity=True)
    out = []
    try:
        a.calc_powder_sens(FPS(v0 + (0 if which != 'T' else 30)), C(15 + (0 if which != 'v' else 10)))
        out.append({'msg': f'calc_powder_sens accepted a second measurement with the same {"velocity" if which != "T" else "temperature"} ({which})', 'key': None})
    except ValueError:
        pass
    if a.temp_modifier != 0.01:
        out.append({'msg': 'failed calibration changed the stored modifier', 'key': None})
    return {'v': out, 'nt': cell}


def launch(cell):
    """the velocity the solver launches with is the one for the atmosphere's powder temperature (air temperature unless given)"""
    import py_ballisticcalc as pb
    mod, v0, t0c, air_c, powder_c, on = cell[:6]
    if len(cell) > 6:      # the preferred temperature unit in force while the objects are built and used
        pb.PreferredUnits.temperature = pb.Unit[cell[6]]
    FPS, C = pb.Unit.FPS, pb.Unit.Celsius
    ammo = pb.Ammo(pb.DragModel(0.3, pb.TableG7), FPS(v0), C(t0c), temp_modifier=mod, use_powder_sensitivity=on)
    atmo = pb.Atmo(pb.Unit.Foot(0), pb.Unit.InHg(29.92), C(air_c), 0.0, C(powder_c) if powder_c is not None else None)
    if len(cell) > 7 and cell[7] == 'vac':
        # an atmosphere without air still has a temperature, and the powder has it too (round 10)
        atmo = pb.Vacuum(pb.Unit.Foot(0), C(air_c))
        powder_c = None
    shot = pb.Shot(pb.Weapon(pb.Unit.Inch(2)), ammo, atmo=atmo)
    out = []
    pt = atmo.powder_temp >> C
    want_pt = powder_c if powder_c is not None else air_c
    if abs(pt - want_pt) > 1e-9:
        out.append({'msg': f'atmosphere powder temperature = {pt} C, expected {want_pt} C (air {air_c}, given {powder_c})', 'key': None})
    row = pb.Calculator().fire(shot, pb.Unit.Foot(3), pb.Unit.Foot(1)).trajectory[0]
    got = row.velocity >> FPS
    exp_api = ammo.get_velocity_for_temp(atmo.powder_temp) >> FPS
    exp = v0 * (1 + mod * (want_pt - t0c) / 15.0) if on else v0
    if abs(got - exp_api) > 1e-12 * v0:
        out.append({'msg': f'launch speed {got!r} differs from get_velocity_for_temp(powder_temp) = {exp_api!r}', 'key': None})
    if abs(got - exp) > 1e-9 * v0:
        out.append({'msg': f'launch speed {got!r}, line gives {exp!r} (mod {mod}, v0 {v0} @ {t0c} C, powder {want_pt} C, on={on})', 'key': None})
    # ... in every computation, zeroing included: zero with the same calculator, fire back, the trajectory must meet the sight line
    import math
    calc = pb.Calculator()
    zd = 200.0 * 3
    try:
        calc.set_weapon_zero(shot, pb.Unit.Foot(zd))
        back = [r for r in calc.fire(shot, pb.Unit.Foot(zd), pb.Unit.Foot(zd)).trajectory if r.flag & 8][-1]
        miss = abs(back.target_drop >> pb.Unit.Foot)
        bound = 5e-6 + 0.5 * abs(math.tan(back.angle >> pb.Unit.Radian)) + 1e-9
        if miss > bound:
            out.append({'msg': f'zeroed at 200 yd with powder at {want_pt} C (stated {v0} fps at {t0c} C, modifier {mod}, on={on}) but the shot then fired is {miss * 12:.3f} in off the sight line '
                               f'there (allowed {bound * 12:.4f} in): zeroing did not launch with the velocity for the powder temperature', 'key': None})
    except (pb.RangeError, pb.ZeroFindingError):
        pass
    # the SAME shot object goes on living: another atmosphere is assigned to it (colder day), then another ammunition - every computation launches
    # with the velocity for what the shot holds NOW
    for step in ('atmo', 'ammo', 'enable'):
        if step == 'atmo':
            shot.atmo = pb.Atmo(pb.Unit.Foot(0), pb.Unit.InHg(29.92), C(air_c - 22.0), 0.0)
            now_pt, now_ammo = air_c - 22.0, ammo
        elif step == 'ammo':
            now_ammo = pb.Ammo(pb.DragModel(0.3, pb.TableG7), FPS(v0 - 100.0), C(t0c + 5.0), temp_modifier=0.03, use_powder_sensitivity=True)
            shot.ammo = now_ammo
        else:
            now_ammo.use_powder_sensitivity = not now_ammo.use_powder_sensitivity
        got2 = pb.Calculator().fire(shot, pb.Unit.Foot(3), pb.Unit.Foot(1)).trajectory[0].velocity >> FPS
        a_ = now_ammo
        exp2 = (a_.mv >> FPS) * (1 + a_.temp_modifier * (now_pt - (a_.powder_temp >> C)) / 15.0) if a_.use_powder_sensitivity else (a_.mv >> FPS)
        if abs(got2 - exp2) > 1e-9 * v0:
            out.append({'msg': f'the same shot object after a new {step} was assigned / switched: launch speed {got2!r}, the line of what the shot holds now gives {exp2!r}', 'key': None})
            break
    return {'v': out, 'n': 7, 'nt': cell if (on and mod and want_pt != t0c) else None, 'obs': [on, powder_c is None]}


def edit(cell):
    """Ammo is a plain mutable object: after it has been used, editing mv / powder_temp / temp_modifier / the on-off flag must give what a freshly
    built ammunition with those values gives (nothing derived from the old values may be remembered)"""
    import py_ballisticcalc as pb
    first_use, edits = cell
    FPS, C = pb.Unit.FPS, pb.Unit.Celsius
    dm = pb.DragModel(0.3, pb.TableG7)
    vals = {'mv': 800.0, 'pt': 15.0, 'mod': 0.015, 'on': True}
    a = pb.Ammo(dm, FPS(vals['mv']), C(vals['pt']), vals['mod'], vals['on'])
    if first_use == 'query':
        a.get_velocity_for_temp(C(0))
    elif first_use == 'calib':
        a.calc_powder_sens(FPS(780), C(0))
        vals['mod'] = a.temp_modifier
    elif first_use == 'fire':
        pb.Calculator().fire(pb.Shot(pb.Weapon(pb.Unit.Inch(2)), a, atmo=pb.Atmo(temperature=C(30))), pb.Unit.Foot(3), pb.Unit.Foot(1))
    out = []
    for e in edits:
        if e == 'mv':
            vals['mv'] = 850.0
            a.mv = FPS(850.0)
        elif e == 'pt':
            vals['pt'] = 5.0
            a.powder_temp = C(5.0)
        elif e == 'mod':
            vals['mod'] = 0.03
            a.temp_modifier = 0.03
        elif e == 'off':
            vals['on'] = False
            a.use_powder_sensitivity = False
        elif e == 'recalib':
            a.calc_powder_sens(FPS(vals['mv'] - 30), C(vals['pt'] - 20))
            ref = pb.Ammo(dm, FPS(vals['mv']), C(vals['pt']), vals['mod'], vals['on'])
            vals['mod'] = ref.calc_powder_sens(FPS(vals['mv'] - 30), C(vals['pt'] - 20))
        fresh = pb.Ammo(dm, FPS(vals['mv']), C(vals['pt']), vals['mod'], vals['on'])
        for qc in (-20.0, 0.0, vals['pt'], 40.0):
            got, exp = a.get_velocity_for_temp(C(qc)) >> FPS, fresh.get_velocity_for_temp(C(qc)) >> FPS
            if abs(got - exp) > 1e-9 * abs(exp):
                out.append({'msg': f'ammunition first used by {first_use}, then edited {edits[:edits.index(e) + 1]}: v({qc} C) = {got!r}, a freshly built ammunition with the same values gives {exp!r}', 'key': None})
                break
        shot = pb.Shot(pb.Weapon(pb.Unit.Inch(2)), a, atmo=pb.Atmo(temperature=C(30)))
        v0 = pb.Calculator().fire(shot, pb.Unit.Foot(3), pb.Unit.Foot(1)).trajectory[0].velocity >> FPS
        exp0 = fresh.get_velocity_for_temp(C(30)) >> FPS
        if abs(v0 - exp0) > 1e-9 * abs(exp0):
            out.append({'msg': f'ammunition first used by {first_use}, then edited {edits[:edits.index(e) + 1]}: solver launches with {v0!r} fps, fresh ammunition gives {exp0!r}', 'key': None})
        if out:
            break
    return {'v': out[:2], 'n': len(edits) * 5, 'nt': cell if edits else None}


PARTS = {'calib': calib, 'same': same, 'launch': launch, 'edit': edit}


def plan(tier):
    v0s = V0[:2] if tier == 'quick' else V0
    t0s = T0[:3] if tier == 'quick' else T0
    dvs = DV if tier == 'thorough' else [-60.0, -20.0, 20.0, 60.0]
    dts = DT if tier == 'thorough' else [-25.0, -15.0, 10.0, 30.0, 0.5]       # 0.5 C apart: a steep line (modifier > 1)
    cal = [list(c) for c in itertools.product(v0s, t0s, dvs, dts, TUNITS)]
    sm = [[v, w] for v in v0s for w in ('v', 'T', 'both')]
    la = [list(c) for c in itertools.product([0.0, 0.015, -0.01], v0s, [15.0, 0.0], [15.0, -20.0, 35.0], [None, 15.0, 40.0, 0.0],
                                             [True, False])]
    la += [c + [pu] for c in la[::4] for pu in ('Celsius', 'Kelvin')]
    la += [c + ['Fahrenheit', 'vac'] for c in la if len(c) == 6 and c[4] is None]
    eds = ['mv', 'pt', 'mod', 'off', 'recalib']
    ed = [[f, list(e)] for f in ('none', 'query', 'calib', 'fire') for d in (1, 2) for e in itertools.permutations(eds, d)]
    return [('calib', cal), ('same', sm), ('launch', la), ('edit', ed)]

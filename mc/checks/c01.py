"""C01 - trajectory is the solution of the point-mass equations of motion.
Engine E1 (deviation-bounded shot space x step ladder) against an independent RK4 / closed-form reference."""
import itertools

from mc.ref import ode
from mc.world import make_shot, make_calc, BASE, WINDS

PID = 'C01'
LEVEL = 'exploration'
ENGINE = 'E1'
TECHNIQUE = 'deviation-bounded exhaustive enumeration of the shot space (all cells within k deviations of a baseline + hand-written everything-on cells) x step ladder, each compared with an independent RK4 integrator with event location (closed-form parabola in a vacuum)'
RULE = ('shot space: drag model {G7,G1,RA4,custom 3-node,multi-BC} x BC {.223,.05,.9} x mv {2750,1150,4000,600} x sight height {2,0,-1 in} x look {0,20,-30} x '
        'zero {5 MOA,0,3 deg} x relative {0,1 deg} x cant {0,30,90} x atmosphere {ICAO, ICAO 5000 ft, hot/humid, vacuum} x winds {none,cross,head,tail,3 segments out of '
        'order,60 mph quartering,calm then wind,wind-calm-wind} x range {300 yd, 800 yd}; cells = all with <= k deviations from the baseline (quick k=1 plus the interacting pairs cant x relative/zero/look/sight, mv x wind, atmosphere x look/wind, look x wind, drag model x mv; thorough k=2) + 7 everything-on cells; '
        'each cell runs the solver on the ladder h = 0.5,0.25,0.125,0.0625 ft and compares 4 rows x 4 columns on every rung with the reference; '
        'reuse cells = for each input dimension, its values assigned in place one after the other to the objects of one shot fired with one long-used calculator, each compared bitwise with a fresh calculator on freshly built objects; non-trivial = precondition held (no range error, x strictly increasing) and the reference was sharper than the bound')
ASSUMPTIONS = ['wind segment switches may lag by one integration step: floor includes (sensitivity of the reference to the switch position) x one step', 'oracle: e_h <= 4 Delta*_h + floor with the ladder-wide first-order scale Delta* (DESIGN C01); floor = 1e-7 ft / 1e-6 fps / 1e-10 s + reference error + 2 % of the largest halving change',
               'Atmo.get_density_factor_and_mach_for_altitude and TrajectoryCalc.drag_by_mach are used as black-box coefficient functions (their own correctness is C08/C09)',
               'convergence is checked on a 4-rung ladder, not in the limit', 'spin drift excluded (twist 0); it is C05']

DIMS = dict(dm=['G1', 'RA4', 'custom3', 'multi'], bc=[.05, .9], mv=[1150.0, 4000.0, 600.0], sh=[0.0, -1.0], look=[20.0, -30.0], zero=[0.0, 3.0],
            rel=[1.0], cant=[30.0, 90.0], atmo=['icao5k', 'hot', 'vac'], wind=['cross', 'head', 'tail', 'seg3', 'q60', 'calm_wind', 'wind_calm_wind', 'mixed_units', 'finite'], R=[2400.0])
EVERYTHING = [
    dict(dm='G1', bc=.3, mv=1150.0, look=20.0, cant=30.0, atmo='hot', wind='seg3', zero=3.0, sh=0.0, rel=1.0),
    dict(mv=1150.0, wind='seg3'), dict(mv=1150.0, wind='seg3', dm='G1', look=20.0), dict(mv=1150.0, wind='q60'),
    dict(mv=1150.0, wind='head', atmo='hot'), dict(mv=1150.0, bc=.05), dict(mv=1150.0, look=-30.0),
]
ABS_FLOOR = (1e-7, 1e-7, 1e-6, 1e-10)
COLS = ('height', 'windage', 'speed', 'time')
K = 4.0


def row_cols(r):
    from py_ballisticcalc import Unit
    return (r.height >> Unit.Foot, r.windage >> Unit.Foot, r.velocity >> Unit.FPS, r.time)


def ladder(cell):
    import py_ballisticcalc as pb
    U = pb.Unit
    dev = dict(cell)
    R = dev.pop('R', 900.0)
    rungs = dev.pop('rungs', [0.5, 0.25, 0.125, 0.0625])
    spec = dict(BASE)
    spec.update(dev)
    spec['twist'] = 0.0
    shot = make_shot(spec)
    dists = [R * k / 4 for k in range(1, 5)]
    rows = {}
    try:
        for h in rungs:
            calc = make_calc({'max_calc_step_size_feet': h})
            tr = calc.fire(shot, U.Foot(R), U.Foot(R / 4)).trajectory
            rr = [r for r in tr if r.flag & 8]
            if len(rr) < 5:
                return {'v': [{'msg': f'{dev}: fewer than 5 rows at step {h}', 'key': None}]}
            rows[h] = [row_cols(r) for r in rr[1:5]]
            for r, D in zip(rr[1:5], dists):
                if abs((r.distance >> U.Foot) - D) > 1e-6:
                    return {'vac': True, 'obs': 'row not at requested distance (C03 business)'}
    except pb.RangeError as e:
        return {'vac': True, 'obs': ['range error', e.reason]}
    # precondition: x strictly increasing (coarsest trace suffices: finer rungs follow the same path)
    calc = make_calc()
    wspec = spec['wind'] if not isinstance(spec['wind'], str) else WINDS[spec['wind']]
    alt0 = shot.atmo.altitude >> U.Foot
    if spec['atmo'] == 'vac':
        ref = ode.vacuum_parabola(spec, dists)
        ref2 = ref
    else:
        atmo_fn, drag_fn = ode.coefficient_functions(shot, calc)
        try:
            ref = ode.solve(spec, wspec, atmo_fn, drag_fn, alt0, dists, dt=4e-5)
            ref2 = ode.solve(spec, wspec, atmo_fn, drag_fn, alt0, dists, dt=8e-5)
        except ArithmeticError:
            return {'vac': True, 'obs': 'not moving down-range'}
    # The solver switches wind segments at the first integration point at or beyond a boundary, i.e. up to one step late. That lag is part of
    # its first-order discretisation error but, on a ladder of nested lattices, it need not shrink from rung to rung (the same lattice point can
    # be the first one beyond the boundary on several rungs). Allow it explicitly: sensitivity of each reference value to the switch position
    # (finite difference over 0.25 ft) x one step of advance.
    sens = [[0.0] * 4 for _ in range(4)]
    boundaries = [u for u, _ in ode.segments(wspec) if u < R]
    if boundaries and spec['atmo'] != 'vac':
        DELTA = 0.25
        ref_s = ode.solve(spec, wspec, atmo_fn, drag_fn, alt0, dists, dt=4e-5, boundary_shift=DELTA)
        for k in range(4):
            a, b = ode.columns(*ref[k]), ode.columns(*ref_s[k])
            sens[k] = [abs(x - y) / DELTA for x, y in zip(a, b)]
    out = []
    hs = rungs[:-1]
    worst = 0.0
    inconclusive = False
    for c in range(4):
        D = {h: [abs(rows[h][k][c] - rows[h2][k][c]) for k in range(4)] for h, h2 in zip(rungs, rungs[1:])}
        for k in range(4):
            cest = max(D[h][k] / (h / 2) for h in hs)
            rc = ode.columns(*ref[k])[c]
            rc2 = ode.columns(*ref2[k])[c]
            referr = abs(rc - rc2) * 16 / 15
            for h in rungs:
                e = abs(rows[h][k][c] - rc)
                dstar = cest * h / 2
                hh = min(max(h, hs[-1]), hs[0])
                floor = ABS_FLOOR[c] + referr + 0.02 * max(D[hh]) + sens[k][c] * (h / 2) * 1.5
                if referr > K * dstar + floor - referr and h == rungs[-1]:
                    inconclusive = True
                ratio = (e - floor) / dstar if dstar > 0 else (0.0 if e <= floor else 99.0)
                worst = max(worst, ratio)
                if e > K * dstar + floor:
                    if len(out) < 3:
                        out.append({'msg': f'{dev} range {R} ft: {COLS[c]} at {dists[k]} ft with step {h} ft is {rows[h][k][c]!r}, the point-mass solution gives {rc!r}; '
                                           f'error {e:.3e} exceeds {K} x first-order scale {dstar:.3e} + floor {floor:.3e}', 'key': None,
                                    'column': COLS[c], 'step': h, 'error': e, 'scale': dstar, 'floor': floor})
    if inconclusive and not out:
        return {'vac': True, 'obs': 'reference not sharper than the bound', 'n': len(rungs) + 2}
    return {'v': out, 'n': len(rungs) + 2, 'nt': cell, 'obs': [spec['atmo'] == 'vac', worst > 2.0], 'extra': {'max_err_over_scale': worst}}


def reuse(cell):
    """"for every shot" includes a shot whose inputs were edited in place and that is fired again with a long-used calculator: every value of one
    input dimension is assigned in turn to the SAME shot / weapon / ammunition / drag-model objects and fired with the same calculator; each
    result must equal, bit for bit, that of a fresh calculator on objects built from the edited values (which the ladder part ties to the ODE)"""
    import py_ballisticcalc as pb
    from mc.world import make_dm, make_atmo, make_winds, traj_bits
    U = pb.Unit
    dim, h = cell
    cfg = {'max_calc_step_size_feet': h}
    calc = make_calc(cfg)
    spec = dict(BASE)
    spec['twist'] = 0.0
    shot = make_shot(spec)
    R = 900.0
    calc.fire(shot, U.Foot(R), U.Foot(R / 4))
    out = []
    n = 0
    base_v = BASE[dim] if dim not in ('R', 'wind_inplace') else None
    values = list(DIMS[dim]) + [base_v] + list(DIMS[dim])[:1] if dim != 'wind_inplace' else [[10, 90, None], [25, 200, None], [25, 200, 100], [0, 200, 100], [12, 45, None]]
    if dim == 'wind_inplace':
        shot.winds = make_winds([[5, 90, None]])
        calc.fire(shot, U.Foot(R), U.Foot(R / 4))
    for v in values:
        spec[dim] = v
        if dim == 'bc' and hasattr(shot.ammo.dm, 'BC'):
            shot.ammo.dm.BC = v
        elif dim == 'dm':
            shot.ammo.dm = make_dm(spec)
        elif dim == 'mv':
            shot.ammo.mv = U.FPS(v)
        elif dim == 'sh':
            shot.weapon.sight_height = U.Inch(v)
        elif dim == 'zero':
            shot.weapon.zero_elevation = U.Degree(v)
        elif dim == 'look':
            shot.look_angle = U.Degree(v)
        elif dim == 'rel':
            shot.relative_angle = U.Degree(v)
        elif dim == 'cant':
            shot.cant_angle = U.Degree(v)
        elif dim == 'atmo':
            shot.atmo = make_atmo(v)
        elif dim == 'wind':
            shot.winds = make_winds(v)
        elif dim == 'wind_inplace':
            # the Wind objects the shot already holds are edited in place (speed, direction, until-distance)
            w_ = shot.winds[0]
            w_.velocity, w_.direction_from, w_.until_distance = U.MPH(v[0]), U.Degree(v[1]), (U.Yard(v[2]) if v[2] is not None else pb.Wind().until_distance)
            spec['wind'] = [list(v)]
        n += 1

        def fire(c, s_):
            try:
                return ['ok', traj_bits(c.fire(s_, U.Foot(R), U.Foot(R / 4)).trajectory)]
            except pb.RangeError as e:
                return ['RangeError', e.reason, traj_bits(e.incomplete_trajectory)]
        got = fire(calc, shot)
        exp = fire(make_calc(cfg), make_shot(spec))
        if got != exp:
            out.append({'msg': f'long-used calculator, {dim} changed in place to {v!r} on the same objects: the trajectory differs from a fresh calculator on a shot built '
                               f'with {dim}={v!r} (an input of the equations of motion is stale)', 'key': None})
            break
    return {'v': out, 'n': n, 'nt': cell}


PARTS = {'ladder': ladder, 'reuse': reuse}


def deviations(k):
    keys = list(DIMS)
    out = []
    for n in range(0, k + 1):
        for ks in itertools.combinations(keys, n):
            for vals in itertools.product(*(DIMS[x] for x in ks)):
                out.append(dict(zip(ks, vals)))
    return out


PAIRS_QUICK = [('cant', 'rel'), ('cant', 'zero'), ('look', 'cant'), ('mv', 'wind'), ('atmo', 'look'), ('atmo', 'wind'), ('look', 'wind'), ('dm', 'mv'), ('sh', 'cant')]


def plan(tier):
    cells = deviations(1 if tier == 'quick' else 2)
    if tier == 'quick':   # the two-deviation cells in which two mechanisms of the statement interact directly
        for a, b in PAIRS_QUICK:
            for va, vb in itertools.product(DIMS[a], DIMS[b]):
                cells.append({a: va, b: vb})
    cells += [dict(c) for c in EVERYTHING]
    if tier == 'thorough':
        cells += [dict(c, rungs=[1.0, 0.5, 0.25, 0.125, 0.0625, 0.03125]) for c in deviations(1)[:12]]
    ru = [[d, h] for d in list(DIMS) + ['wind_inplace'] if d != 'R' for h in (0.5, 0.25)]
    return [('ladder', cells), ('reuse', ru)]

"""C16 - danger space is the contiguous stretch of trajectory within the target.
Engine E1: exhaustive over all small synthetic drop profiles + real trajectories on both branches."""
import itertools

PID = 'C16'
# thread bodies (defined with engine E4, mc/checks/c10_sched.py) that exercise this property's code; explored after the parts below
SCHED_SETS = [('fire||danger', 'call')]
LEVEL = 'model_checking'
ENGINE = 'E1'
TECHNIQUE = 'bounded exhaustive enumeration of all drop profiles up to n rows over a 5-level alphabet x every target row x 6 target heights, the statement evaluated literally as a scan'
RULE = ('cells = every drop profile of 1..5 rows (thorough 6) with drops in {-2,-1,0,1,2} in; each cell asks every target row, a request '
        'between each pair of rows and one beyond the last row, for half-heights {0.25,0.5,1,1.5,2.25,5} in; real part: trajectories '
        '(600-yd zero, flat 100-yd zero, 30-degree arc; look 0 and 15 deg; 1-yd and 10-yd rows) x every 25 yd on both branches x 4 heights; '
        'non-trivial = profile with >= 3 rows that is not constant (so a bound can lie strictly inside); history part: one long-lived result object, every sequence of <= 3 (thorough 4) operations over {8 requests as quantities or bare numbers, 3 display-preference switches}, each answer judged by the same oracle')
ASSUMPTIONS = ['the requested range of an inclined trajectory may be read as horizontal or as look distance (either, consistently)', 'drop levels and heights outside the alphabet are represented by their order relations with h/2 only',
               'comparisons use 1e-9 in slack on real trajectories']
LEVEL_TEXT = ('All profiles up to the bound are enumerated (rising, falling, arcing, oscillating), so both branches and every position of '
              'the bound rows are covered; the oracle is the statement itself.')

LEVELS = (-2, -1, 0, 1, 2)
HALVES = (0.25, 0.5, 1, 1.5, 2.25, 5)


def _row(i, drop, dist_yd=None):
    import py_ballisticcalc as pb
    A, Z = pb.Unit.Radian(0), pb.Unit.Foot(0)
    d = pb.Unit.Yard(10 * i if dist_yd is None else dist_yd)
    return pb.TrajectoryData(float(i), d, pb.Unit.FPS(1000), 1.0, pb.Unit.Inch(drop), pb.Unit.Inch(drop), A, Z, A, pb.Unit.Yard(10 * i),
                             A, 0.0, 0.0, pb.Unit.FootPound(0), pb.Unit.Pound(0), 8)


def oracle(rows, at_raw, half, ds, slack=0.0):
    """the statement, literally; returns (list of failed clauses, (b, e, c))"""
    idx = {id(r): i for i, r in enumerate(rows)}
    try:
        b, e, c = idx[id(ds.begin)], idx[id(ds.end)], idx[id(ds.at_range)]
    except KeyError:
        return ['a bound is not a row of the trajectory'], None
    out = []
    # "the requested range" of an inclined trajectory may be measured along the ground (distance) or along the sight line (look distance);
    # the statement does not say which: either is accepted, but consistently within one answer (DESIGN section 8, item 11)
    tgt = next((i for i, r in enumerate(rows) if r.distance.raw_value >= at_raw), -1)
    tgt_l = next((i for i, r in enumerate(rows) if r.look_distance.raw_value >= at_raw), -1)
    measure = (lambda r: r.distance.raw_value)
    if c != tgt:
        if c == tgt_l:
            measure = (lambda r: r.look_distance.raw_value)
        else:
            out.append(f'target row {c} is not the first row at or beyond the requested range ({tgt})')
    if not b <= c <= e:
        out.append(f'rows out of order: begin {b}, target {c}, end {e}')
    if not (measure(rows[b]) <= at_raw + slack and at_raw <= measure(rows[e]) + slack):
        out.append(f'begin/end rows {b},{e} do not bracket the requested range')
    dc = rows[c].target_drop.raw_value
    for i in range(b + 1, e):
        if abs(rows[i].target_drop.raw_value - dc) > half + slack:
            out.append(f'row {i} strictly inside the danger space [{b},{e}] is {abs(rows[i].target_drop.raw_value - dc)} in from the '
                       f'target drop, more than half the target height {half}')
            break
    if b != 0 and abs(rows[b].target_drop.raw_value - dc) < half - slack:
        out.append(f'begin row {b} is neither the first row nor {half} in away from the target drop')
    if e != len(rows) - 1 and abs(rows[e].target_drop.raw_value - dc) < half - slack:
        out.append(f'end row {e} is neither the last row nor {half} in away from the target drop')
    return out, (b, e, c)


def synthetic(cell):
    import py_ballisticcalc as pb
    drops = cell
    if drops and isinstance(drops[0], str):
        # the same profile under non-default display preferences: results are about magnitudes, not about the units rows are displayed in
        pref, drops = drops[0], drops[1:]
        for slot, un in {'cm_yd': (('drop', 'Centimeter'), ('target_height', 'Yard')), 'metric': (('drop', 'Centimeter'), ('target_height', 'Meter'), ('distance', 'Meter'))}[pref]:
            setattr(pb.PreferredUnits, slot, pb.Unit[un])
    L = len(drops)
    rows = [_row(i, d) for i, d in enumerate(drops)]
    hr = pb.HitResult(None, rows, True)
    look = pb.Unit.Degree(0)
    out = []
    n = 0
    requests = [10.0 * t for t in range(L)] + [10.0 * t + 5.0 for t in range(L - 1)]
    for at_yd in requests:
        prev = None
        for half in HALVES:
            at = pb.Unit.Yard(at_yd)
            ds = hr.danger_space(at, pb.Unit.Inch(2 * half), look)
            n += 1
            o, bec = oracle(rows, at.raw_value, half, ds)
            if bec and prev and (bec[0] > prev[0] or bec[1] < prev[1]):
                o.append(f'taller target shrank the danger space from rows {prev[:2]} to {bec[:2]}')
            prev = bec or prev
            for k in o:
                if len(out) < 3:
                    out.append({'msg': f'drops {drops} in, target at {at_yd} yd, height {2 * half} in: {k}', 'key': None})
    # beyond the computed trajectory -> error
    for at_yd in (10.0 * (L - 1) + 0.5, 10.0 * L + 100):
        n += 1
        try:
            ds = hr.danger_space(pb.Unit.Yard(at_yd), pb.Unit.Inch(1), look)
            out.append({'msg': f'drops {drops}: danger space beyond the trajectory ({at_yd} yd) returned {ds.begin.distance}..{ds.end.distance} instead of an error', 'key': None})
        except ArithmeticError:
            pass
    # a result without extra data -> error
    n += 1
    try:
        pb.HitResult(None, rows, False).danger_space(pb.Unit.Yard(0), pb.Unit.Inch(1), look)
        out.append({'msg': 'danger space on a result without extra data did not raise', 'key': None})
    except AttributeError:
        pass
    nontrivial = L >= 3 and len(set(drops)) > 1
    pb.PreferredUnits.defaults()
    shape = [any(a < b for a, b in zip(drops, drops[1:])), any(a > b for a, b in zip(drops, drops[1:]))]
    return {'v': out, 'n': n, 'states': 1, 'transitions': n, 'traces': 1, 'nt': cell if nontrivial else None, 'obs': [L] + shape}


def real(cell):
    import py_ballisticcalc as pb
    from mc.world import make_shot
    spec, zero_yd, rng_yd, step_yd = cell
    shot = make_shot(spec)
    calc = pb.Calculator()
    if zero_yd:
        calc.set_weapon_zero(shot, pb.Unit.Yard(zero_yd))
    hr = calc.fire(shot, pb.Unit.Yard(rng_yd), pb.Unit.Yard(step_yd), extra_data=True)
    rows = hr.trajectory
    out = []
    n = 0
    rising = falling = 0
    at = 25.0
    while at <= rng_yd:
        prev = None
        for h_in in (4, 10, 20, 60):
            ds = hr.danger_space(pb.Unit.Yard(at), pb.Unit.Inch(h_in))
            n += 1
            o, bec = oracle(rows, pb.Unit.Yard(at).raw_value, h_in / 2, ds, slack=1e-9)
            if bec and prev and (bec[0] > prev[0] or bec[1] < prev[1]):
                o.append(f'taller target shrank the danger space from rows {prev[:2]} to {bec[:2]}')
            prev = bec or prev
            if bec:
                c = bec[2]
                if 0 < c < len(rows) - 1:
                    if rows[c + 1].target_drop.raw_value > rows[c].target_drop.raw_value:
                        rising += 1
                    else:
                        falling += 1
            for k in o:
                if len(out) < 3:
                    out.append({'msg': f'{spec} zero {zero_yd} yd rows every {step_yd} yd, target {at} yd height {h_in} in: {k}', 'key': None})
        at += 25.0
    n += 1
    try:
        hr.danger_space(pb.Unit.Yard(rng_yd * 2 + 50), pb.Unit.Inch(10))
        out.append({'msg': 'real trajectory: danger space beyond the last row did not raise', 'key': None})
    except ArithmeticError:
        pass
    return {'v': out, 'n': n, 'states': 1, 'transitions': n, 'traces': 1, 'nt': cell if rising and falling else None,
            'obs': [rising > 0, falling > 0]}


H_ASKS = [['ask', at, h, form] for form in ('q', 'bare') for at in (20.0, 35.0) for h in (1.0, 3.0)]
H_PREFS = [['pref', n] for n in ('default', 'metric', 'cm_yd')]
H_PROFILES = {'arc': [-2, 0, 1, 2, 0, -2], 'wave': [0, 2, -1, 1, -2, 0]}
_PREFS = {'default': (), 'cm_yd': (('drop', 'Centimeter'), ('target_height', 'Yard')), 'metric': (('drop', 'Centimeter'), ('target_height', 'Meter'), ('distance', 'Meter'))}


def history(cell):
    """ONE long-lived result object asked again and again while the display preferences change in between: every answer must be the answer
    to the question as asked now (a bare number is that number in the unit preferred NOW) - judged by the same literal oracle"""
    import py_ballisticcalc as pb
    prof, ops = cell
    drops = H_PROFILES[prof]
    rows = [_row(i, d) for i, d in enumerate(drops)]
    hr = pb.HitResult(None, rows, True)
    out = []
    n = 0
    for k, op in enumerate(ops):
        if op[0] == 'pref':
            pb.PreferredUnits.defaults()
            for slot, un in _PREFS[op[1]]:
                setattr(pb.PreferredUnits, slot, pb.Unit[un])
            continue
        _, at, h, form = op
        if form == 'q':
            at_q, h_q = pb.Unit.Yard(at), pb.Unit.Inch(h)
            ds = hr.danger_space(at_q, h_q, pb.Unit.Degree(0))
        else:
            at_q, h_q = pb.PreferredUnits.distance(at), pb.PreferredUnits.target_height(h)
            ds = hr.danger_space(at, h, 0.0)
        n += 1
        o, bec = oracle(rows, at_q.raw_value, (h_q >> pb.Unit.Inch) / 2, ds, slack=1e-9)
        for msg in o[:1]:
            out.append({'msg': f'profile {drops}, one result object, after {ops[:k]}: {op} -> {msg}', 'key': None})
        if out:
            break
    pb.PreferredUnits.defaults()
    asks = sum(1 for op in ops if op[0] == 'ask')
    return {'v': out, 'n': n, 'states': 1, 'transitions': n, 'traces': 1, 'nt': cell if asks >= 2 and asks < len(ops) else None}


PARTS = {'synthetic': synthetic, 'real': real, 'history': history}


def plan(tier):
    maxlen = 5 if tier == 'quick' else 6
    syn = [list(p) for L in range(1, maxlen + 1) for p in itertools.product(LEVELS, repeat=L)]
    syn += [[pref] + list(p) for pref in ('cm_yd', 'metric') for L in range(1, min(maxlen, 5) + 1) for p in itertools.product(LEVELS, repeat=L)]
    rl = []
    for look in (0.0, 15.0):
        for step in (10, 1):
            rl.append([{'look': look, 'zero': 0.0}, 600, 800, step])
            rl.append([{'look': look, 'zero': 0.0}, 100, 300, step])
            rl.append([{'look': look, 'zero': 30.0, 'mv': 1200.0, 'dm': 'G1', 'bc': 0.3}, 0, 800, step])
    if tier == 'quick':
        rl = [c for c in rl if c[3] == 10] + [c for c in rl if c[3] == 1][:1]
    alpha = H_ASKS + H_PREFS
    depth = 3 if tier == 'quick' else 4
    hs = [[prof, list(seq)] for prof in H_PROFILES for d in range(1, depth + 1) for seq in itertools.product(alpha, repeat=d) if seq[-1][0] == 'ask']
    return [('synthetic', syn), ('real', rl), ('history', hs)]

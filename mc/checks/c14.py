"""C14 - multi-BC drag models realise the interpolated BC and leave inputs intact.
Engine E1 (all ordered point lists) + E2 (all build histories up to depth 3 on shared inputs)."""
import bisect
import itertools

from mc.core import bits

PID = 'C14'
# thread bodies (defined with engine E4, mc/checks/c10_sched.py) that exercise this property's code; explored after the parts below
SCHED_SETS = [('construct||construct', 'line')]
LEVEL = 'model_checking'
ENGINE = 'E1+E2'
TECHNIQUE = 'bounded exhaustive enumeration of all ordered BC-point lists (1..3 points over a 3x4 alphabet) against a hand-written clamped linear interpolation, plus all build histories up to depth 3/4 over shared inputs with a snapshot invariant on every transition'
RULE = ('law cells = every ordered list of 1..3 points with distinct Mach over BC {.2,.25,.3} x Mach {.5,1,2,3} (768 lists) plus 6 lists with points beyond the end of the table (Mach 6..9) x input form '
        '(Mach, or velocity in FPS/MPS/KMH) x table x with/without weight+diameter; dense cells = 2-4 BC points inside ONE table interval (4 intervals per table) with/without points below and above, 3 orders; history cells = every sequence of <= 3 (thorough 4) '
        'operations over {plain model from dicts, multi from dicts, multi from the plain model\'s data points, multi from the last '
        'multi model\'s data points, repeat last multi build}; after every operation every input table, every live model and every '
        'BC point is compared with its snapshot; non-trivial = list with >= 2 points / history that shares data points between models')
ASSUMPTIONS = ['re-ordering the caller\'s list of BC points is not an alteration of the points (lenient reading)',
               'velocity points: Mach = V / 340.29 m/s checked to 1e-4, the law is then evaluated with the Mach the point reports']
LEVEL_TEXT = ('Operation histories over shared inputs have no fixed expected value; the invariant (inputs and other live models unchanged, '
              'second build bit-identical) is evaluated after every transition of every history up to the bound.')

BCS = (0.2, 0.25, 0.3)
MACHS = (0.5, 1.0, 2.0, 3.0)
SPEED_OF_SOUND_MPS = 340.294   # ISA sea level (independent of the library constant 340.29)
TABLES = ['G7', 'G1', 'G2', 'G5', 'G6', 'G8', 'GI', 'GS', 'RA4']
OUTSIDE = [[[0.3, 4.0], [0.5, 6.0]], [[0.5, 6.0], [0.3, 3.0]], [[0.2, 0.5], [0.3, 7.0]], [[0.25, 6.0]], [[0.3, 6.0], [0.2, 8.0]], [[0.2, 2.0], [0.3, 4.5], [0.4, 9.0]]]


def interp(x, xp, yp):
    if x <= xp[0]:
        return yp[0]
    if x >= xp[-1]:
        return yp[-1]
    i = bisect.bisect_right(xp, x) - 1
    return yp[i] + (yp[i + 1] - yp[i]) * (x - xp[i]) / (xp[i + 1] - xp[i])


def _points(pts, form):
    import py_ballisticcalc as pb
    out = []
    for bc, m in pts:
        if form == 'Mach':
            out.append(pb.BCPoint(bc, Mach=m))
        elif form.startswith('bare:'):
            # a bare number is a velocity in the preferred velocity unit in force when the point is built
            u = pb.Unit[form[5:]]
            pb.PreferredUnits.velocity = u
            out.append(pb.BCPoint(bc, V=pb.Unit.MPS(m * SPEED_OF_SOUND_MPS) >> u))
        else:
            u = pb.Unit[form]
            out.append(pb.BCPoint(bc, V=u(pb.Unit.MPS(m * SPEED_OF_SOUND_MPS) >> u)))
    return out


def _table(name):
    import py_ballisticcalc.drag_tables as dt
    return getattr(dt, 'Table' + name)


def law(cell):
    import py_ballisticcalc as pb
    tname, pts, form, wd = cell
    table = _table(tname)
    std = [(p['Mach'], p['CD']) for p in table]
    args = (pb.Unit.Grain(168), pb.Unit.Inch(0.308), pb.Unit.Inch(1.2)) if wd is True else ()
    if wd == 'w_only':
        args = (pb.Unit.Grain(168),)                   # weight without diameter
    elif wd == 'd_only':
        args = (0, pb.Unit.Inch(0.308))                # diameter without weight
    out = []
    points = _points(pts, form)
    snap = [(p.BC, bits(p.Mach), bits(p.V.raw_value)) for p in points]
    ids = [id(p) for p in points]
    for (bc, m), p in zip(pts, points):
        if abs(p.Mach - m) > 1e-4 * m:
            out.append({'msg': f'BC point given as velocity ({form}) for Mach {m} reports Mach {p.Mach}', 'key': None})
    # "building it twice from the same inputs gives the same model" whatever was built in between: a model on another table and then one with other
    # BC values at the SAME Mach knots on the same table are built first (anything remembered from the previous build shows up)
    pb.DragModelMultiBC([pb.BCPoint(0.41, Mach=1.7), pb.BCPoint(0.37, Mach=0.6)], _table('G1' if tname != 'G1' else 'G7'))
    pb.DragModelMultiBC([pb.BCPoint(bc * 0.5 + 0.07, Mach=m) for bc, m in pts], table, *args)
    dmm = pb.DragModelMultiBC(points, table, *args)
    # inputs intact
    if [(p['Mach'], p['CD']) for p in table] != std:
        out.append({'msg': f'building a multi-BC model altered the shipped table {tname}', 'key': None})
    after = {id(p): (p.BC, bits(p.Mach), bits(p.V.raw_value)) for p in points}
    if sorted(after) != sorted(ids) or any(after[i] != s for i, s in zip(ids, snap)):
        out.append({'msg': 'building a multi-BC model altered a BC point passed in', 'key': None})
    # the law
    sp = sorted((p.Mach, p.BC) for p in points)
    xs, ys = [a for a, b in sp], [b for a, b in sp]
    if len(dmm.drag_table) != len(std) or any(bits(p.Mach) != bits(s[0]) for p, s in zip(dmm.drag_table, std)):
        out.append({'msg': 'multi-BC model does not have the Mach nodes of the underlying table', 'key': None})
    else:
        worst = 0.0
        for p, (mach, cd) in zip(dmm.drag_table, std):
            if cd == 0.0:
                continue
            eff = cd * dmm.BC / p.CD
            ex = interp(mach, xs, ys)
            worst = max(worst, abs(eff - ex) / ex)
            if abs(eff - ex) > 1e-12 * ex:
                out.append({'msg': f'{tname} points {pts} ({form}): effective BC at Mach {mach} is {eff!r}, clamped linear interpolation gives {ex!r}', 'key': None})
                break
    # order of the points is irrelevant (bitwise): compare with the model built from the sorted list
    ref = pb.DragModelMultiBC(_points(sorted(pts, key=lambda t: t[1]), form), table, *args)
    if bits(ref.BC) != bits(dmm.BC) or [bits(p.CD) for p in ref.drag_table] != [bits(p.CD) for p in dmm.drag_table]:
        out.append({'msg': f'{tname}: model from points {pts} differs from the model built from the same points sorted by Mach', 'key': None})
    # single BC value == plain single-BC model
    if len(pts) == 1:
        plain = pb.DragModel(pts[0][0], table, *args)
        for p, q in zip(dmm.drag_table, plain.drag_table):
            if q.CD and abs(p.CD / dmm.BC - q.CD / plain.BC) > 1e-12 * q.CD / plain.BC:
                out.append({'msg': f'{tname}: single-point multi-BC model (BC {pts[0][0]}) differs from the plain model at Mach {q.Mach}: '
                                   f'CD/BC {p.CD / dmm.BC!r} vs {q.CD / plain.BC!r}', 'key': None})
                break
    # usable by the solver (weight/diameter variants differ only in how BC is normalised)
    return {'v': out[:4], 'n': 2, 'nt': cell if len(pts) >= 2 else None, 'obs': [len(pts), form, wd, pts == sorted(pts, key=lambda t: t[1])]}


OPS = ('plain', 'multi_dict', 'multi_from_plain', 'multi_from_multi', 'multi_again', 'failing')


def history(cell):
    import py_ballisticcalc as pb
    tname, pts, ops, wd = cell
    table = _table(tname)
    std = [(p['Mach'], bits(p['CD'])) for p in table]
    args = (pb.Unit.Grain(168), pb.Unit.Inch(0.308), pb.Unit.Inch(1.2)) if wd else ()
    out = []
    live = []          # (name, model, snapshot)
    plain = None
    last_multi = None
    last_build = None  # (fn) to repeat the last multi build from the *same* inputs
    first_result = {}
    shared = False

    def snap(m):
        return (bits(m.BC), [(bits(p.Mach), bits(p.CD)) for p in m.drag_table])

    def fresh_points():
        return _points(pts, 'Mach')

    n = 0
    for k, op in enumerate(ops):
        model = None
        if op == 'plain':
            model = plain = pb.DragModel(0.3, table, *args)
        elif op == 'multi_dict':
            bp = fresh_points()
            last_build = (lambda bp=bp: pb.DragModelMultiBC(bp, table, *args))
            model = last_multi = last_build()
        elif op == 'multi_from_plain':
            if plain is None:
                return {'vac': True, 'n': n}
            bp, src = fresh_points(), plain.drag_table
            last_build = (lambda bp=bp, src=src: pb.DragModelMultiBC(bp, src, *args))
            model = last_multi = last_build()
            shared = True
        elif op == 'multi_from_multi':
            if last_multi is None:
                return {'vac': True, 'n': n}
            bp, src = fresh_points(), last_multi.drag_table
            last_build = (lambda bp=bp, src=src: pb.DragModelMultiBC(bp, src, *args))
            model = last_multi = last_build()
            shared = True
        elif op == 'failing':
            # constructions that raise (empty table, empty point list, bad table entries): nothing may be left behind
            for bad in (lambda: pb.DragModelMultiBC(fresh_points(), []), lambda: pb.DragModelMultiBC([], table, *args),
                        lambda: pb.DragModelMultiBC(fresh_points(), [{'Mach': 1.0}], *args), lambda: pb.DragModel(-1.0, table)):
                try:
                    bad()
                except Exception:  # noqa
                    pass
            n += 1
            if [(p['Mach'], bits(p['CD'])) for p in table] != std:
                out.append({'msg': f'history {ops[:k + 1]}: a failing construction altered the shipped table {tname}', 'key': None})
            for name, m, s_ in live:
                if snap(m) != s_:
                    out.append({'msg': f'{tname} history {ops[:k + 1]}: a failing construction changed the live model created by step {name}', 'key': None})
            continue
        elif op == 'multi_again':
            if last_build is None:
                return {'vac': True, 'n': n}
            prev = snap(last_multi)
            model = last_build()
            if snap(model) != prev:
                out.append({'msg': f'{tname} history {ops[:k + 1]}: building twice from the same inputs gave a different model '
                                   f'(first CD {last_multi.drag_table[5].CD!r}, second {model.drag_table[5].CD!r})', 'key': None})
            last_multi = model
        n += 1
        # invariant after every transition: shipped table, all previously live models unchanged
        if [(p['Mach'], bits(p['CD'])) for p in table] != std:
            out.append({'msg': f'history {ops[:k + 1]} altered the shipped table {tname}', 'key': None})
        for name, m, s in live:
            if m is not model and snap(m) != s:
                out.append({'msg': f'{tname} history {ops[:k + 1]}: operation {op} changed the live model created by step {name} '
                                   f'(e.g. CD at Mach {m.drag_table[5].Mach}: {m.drag_table[5].CD!r})', 'key': None})
                break
        live.append((f'{k}:{op}', model, snap(model)))
        if out:
            break
    return {'v': out[:3], 'n': n, 'states': n + 1, 'transitions': n, 'traces': 1, 'nt': [tname, list(ops), wd] if shared else None,
            'obs': [shared, len(ops)]}


def dense(cell):
    """BC points denser than the table grid: several points inside one table interval, with and without points below / above it"""
    tname, gap, fracs, below, above, order = cell
    table = _table(tname)
    machs = [p['Mach'] for p in table]
    lo, hi = machs[gap], machs[gap + 1]
    pts = []
    if below:
        pts.append([0.20, machs[max(0, gap - 3)] + 0.4 * (machs[max(0, gap - 3) + 1] - machs[max(0, gap - 3)])])
    for k, f in enumerate(fracs):
        pts.append([0.25 + 0.03 * k, lo + f * (hi - lo)])
    if above:
        pts.append([0.40, machs[min(len(machs) - 2, gap + 4)] + 0.5 * (machs[min(len(machs) - 2, gap + 4) + 1] - machs[min(len(machs) - 2, gap + 4)])])
    if order == 'reversed':
        pts = pts[::-1]
    elif order == 'rotated':
        pts = pts[1:] + pts[:1]
    res = law([tname, pts, 'Mach', False])
    res['nt'] = cell
    return res


PARTS = {'law': law, 'history': history, 'dense': dense}


def point_lists():
    out = []
    for k in (1, 2, 3):
        for ms in itertools.permutations(MACHS, k):
            for bcs in itertools.product(BCS, repeat=k):
                out.append([[b, m] for b, m in zip(bcs, ms)])
    return out


def enabled(ops):
    """an operation is enabled only if the objects it shares already exist"""
    plain = multi = False
    for op in ops:
        if op == 'multi_from_plain' and not plain:
            return False
        if op in ('multi_from_multi', 'multi_again') and not multi:
            return False
        plain = plain or op == 'plain'
        multi = multi or op.startswith('multi')
    return True


def plan(tier):
    pls = point_lists()
    law_cells = []
    tabs = ['G7', 'G1'] if tier == 'quick' else TABLES
    for t in tabs:
        for pl in pls:
            for wd in (False, True):
                law_cells.append([t, pl, 'Mach', wd])
    for form in ('FPS', 'MPS', 'KMH'):
        for pl in pls:
            law_cells.append(['G7', pl, form, False])
    for form in ('bare:FPS', 'bare:MPS', 'bare:KMH', 'bare:KT'):
        for pl in pls[::4]:
            law_cells.append(['G7', pl, form, False])
    if tier == 'quick':
        for t in TABLES[2:]:
            for pl in pls[::16]:
                law_cells.append([t, pl, 'Mach', True])
    for t in ('G7', 'G1'):
        for pl in pls[::8]:
            for wd in ('w_only', 'd_only'):
                law_cells.append([t, pl, 'Mach', wd])
    # a point listed twice (same Mach, same BC - a banded BC copied from two sources): harmless, the law is the one of the distinct points
    for t in ('G7', 'G1'):
        for base in ([[0.3, 1.0], [0.32, 2.0], [0.35, 3.0]], [[0.2, 0.5], [0.25, 1.0], [0.3, 2.0], [0.28, 3.0]]):
            for dup in base:
                for perm in sorted(set(itertools.permutations([tuple(x) for x in base + [dup]])))[::3]:
                    law_cells.append([t, [list(x) for x in perm], 'Mach', False])
    # points faster than the table's last entry (Mach 5 for most tables, 4 for GS / RA4) still shape the interpolation below them
    for t in TABLES:
        for pl in OUTSIDE:
            for form in ('Mach', 'FPS'):
                law_cells.append([t, pl, form, False])
    depth = 3 if tier == 'quick' else 4
    hist = []
    for pl in ([[0.2, 1.0], [0.3, 2.0]], [[0.25, 2.0]], [[0.3, 3.0], [0.2, 0.5], [0.25, 1.0]]):
        for d in range(1, depth + 1):
            for ops in itertools.product(OPS, repeat=d):
                if not enabled(ops):
                    continue
                for wd in (False, True):
                    hist.append(['G7', pl, list(ops), wd])
    dn = []
    for t in (['G7', 'G1'] if tier == 'quick' else TABLES):
        n = len(_table_static(t))
        for gap in (1, 20, n // 2, n - 3):
            for fracs in ([0.3, 0.7], [0.2, 0.5, 0.8], [0.0, 0.5], [0.5, 1.0], [0.1, 0.2, 0.3, 0.9]):
                for below, above in ((True, True), (False, True), (True, False), (False, False)):
                    for order in ('sorted', 'reversed', 'rotated'):
                        dn.append([t, gap, fracs, below, above, order])
    return [('law', law_cells), ('history', hist), ('dense', dn)]


def _table_static(name):
    from mc import core
    core.bind_repo()
    return _table(name)

"""C10 - results depend only on the arguments: deterministic, isolated, non-mutating.
Engine E2 (all operation histories up to depth d; explicit-state BFS to closure with a full-state fingerprint; long chains)
+ E4 (all interleavings of 2-3 real threads at function-entry points with a bounded number of pre-emptions)."""
import itertools
import time

from mc import hist as H
from mc.core import bits, HarnessError
from mc.world import traj_bits

PID = 'C10'
LEVEL = 'model_checking'
ENGINE = 'E2+E4'
TECHNIQUE = 'stateless exploration of all operation histories up to depth d and explicit-state BFS to closure over real objects (full-state fingerprint, fresh-world differential oracle on every transition), plus exhaustive enumeration of thread interleavings at function-entry scheduling points up to a pre-emption bound under a cooperative scheduler'
RULE = ('ops = {zero, fire, fire-extra, fire+danger-space, failing zero} x calculators {long-lived default K0, long-lived custom K1, fresh} x shots A..H (sharing weapons, '
        'ammunition, drag models, atmosphere and wind objects; C raises a range error, E cannot be zeroed) + construct ops (new calculators, multi-BC models from the '
        'module-level table and from a live model\'s points, new atmosphere, new shot) + in-place edits of argument objects between computations (wind until-distances swapped, segment appended to a shared list, muzzle velocity changed), for which the reference is a world BUILT from the edited values; history cells: every history of depth <= d (quick 2, thorough 3), the last transition of '
        'each is compared with the same op in a fresh world in which only the weapon zero elevations were replayed, and every argument object is snapshotted before/after; '
        'sandwich: every history [computation, in-place edit, computation on a shot using the edited object] on one long-lived calculator (2016 histories); closure: BFS over the full-state fingerprint with a sub-alphabet whose state space is finite; chain: 200 repetitions of a 4-op cycle on long-lived calculators; '
        'schedule cells: bodies {fire||fire, fire||zero, fire||danger, zero||zero, fire||fire||fire} on shared ammo/atmo/winds, every schedule with <= p pre-emptions '
        '(quick 1, thorough 2) at function-entry points; non-trivial = history whose ops share an object / schedule with >= 1 pre-emption')
ASSUMPTIONS = ['scheduling points are entries of Python functions defined in the library (CPython may switch between any two bytecodes); the shared-write monitor reports 0 points '
               'at which shared state differs from call entry, so finer interleavings are equivalent to the explored ones; if it reports a window, line granularity is explored for it',
               'GIL-enabled CPython, pure-Python backend; free-threaded builds and the Cython backend are out of scope',
               'zeroing legitimately writes weapon.zero_elevation: threads use distinct weapons']
LEVEL_TEXT = ('History and schedule properties have no fixed expected value; every transition of every history up to the bound, every reachable state of the closure alphabet and '
              'every schedule up to the pre-emption bound is compared with a fresh-world / solo run of the same operation on the real code.')

BUDGETS = {'kept': 600, 'sandwich': 600, 'level': 900, 'histories': 600, 'expand': 600, 'monitor': 600, 'free_running': 900, 'chain': 900}
CFG1 = {'max_calc_step_size_feet': 0.25, 'cGravityConstant': -30.0, 'cMaximumDrop': -500.0, 'cMaxIterations': 2}     # K1 zeroes A, D, F, G; B and C end in ZeroFindingError; H in RangeError
SHOTS = 'ABCDEFGH'


def world(z1=None, z2=None, edits=()):
    """edits: argument edits applied AT CONSTRUCTION (reference semantics); the live world applies the same edits in place afterwards"""
    import py_ballisticcalc as pb
    U = pb.Unit
    dmA = pb.DragModel(0.223 if 'bcA' not in edits else 0.3, pb.TableG7, U.Grain(168), U.Inch(0.308), U.Inch(1.2))
    dmB = pb.DragModel(0.4, pb.TableG1, U.Grain(150), U.Inch(0.3), U.Inch(1.1))
    W1, W2 = pb.Weapon(U.Inch(2), U.Inch(12)), pb.Weapon(U.Inch(1.5), U.Inch(-9))
    if z1 is not None:
        W1.zero_elevation = U.Radian(z1)
    if z2 is not None:
        W2.zero_elevation = U.Radian(z2)
    atm = pb.Atmo.icao(U.Foot(5000))
    ammoA = pb.Ammo(dmA, U.FPS(2750))
    windsA = [pb.Wind(U.MPH(10), U.Degree(90))]
    if 'appendA' in edits:
        windsA.append(pb.Wind(U.MPH(8), U.Degree(270), U.Yard(15)))
    ub = (30, 10) if 'swapB' in edits else (10, 30)
    # no weight / dimensions: no spin drift whatever the barrel twist; a CUSTOM table that ends at Mach 2.0, below the launch Mach of shot G (2.3)
    dmC = pb.DragModel(0.3, [dict(p_) for p_ in pb.TableG7 if p_['Mach'] <= 2.0])
    S = {'A': pb.Shot(W1, ammoA, winds=windsA),
         # B: powder sensitivity on, powder (15 C) warmer than the air at 5000 ft: the launch velocity is derived from ammo and atmosphere at every call
         'B': pb.Shot(W2, pb.Ammo(dmB, U.FPS(2000), U.Celsius(15), 0.015, True), look_angle=U.Degree(10), atmo=atm,
                      winds=[pb.Wind(U.MPH(5), U.Degree(45), U.Yard(ub[0])), pb.Wind(U.MPH(15), U.Degree(200), U.Yard(ub[1]))]),
         'C': pb.Shot(W1, pb.Ammo(dmA, U.FPS(100)), relative_angle=U.Degree(30)),    # raises RangeError
         'D': pb.Shot(W1, pb.Ammo(dmB, U.FPS(2400)), winds=[pb.Wind(U.MPH(20), U.Degree(90))] if 'defwindD' in edits else None),
         'E': pb.Shot(W2, pb.Ammo(dmA, U.FPS(30)), atmo=atm),                         # below the minimum velocity: cannot be zeroed
         'F': pb.Shot(W2, ammoA, atmo=atm, winds=windsA, cant_angle=U.Degree(25)),   # shares Ammo and the winds list with A; the only canted rifle
         'G': pb.Shot(W1, pb.Ammo(dmC, U.FPS(2600 if 'mvG' not in edits else 2400))),  # bullet without dimensions from the twisted barrel W1
         # steeply downward: ends at the altitude floor with the default configuration and at the drop limit with K1's (every limit of every
         # configuration is reached by some shot: velocity C/E, altitude and drop H)
         'H': pb.Shot(W1, pb.Ammo(dmA, U.FPS(2750)), relative_angle=U.Degree(-87))}
    K = {'K0': pb.Calculator(), 'K1': pb.Calculator(_config=dict(CFG1))}
    return {'S': S, 'K': K, 'W1': W1, 'W2': W2, 'dmA': dmA, 'dmB': dmB, 'dmC': dmC, 'atm': atm, 'windsA': windsA, 'edits': set(edits)}


def calc_for(w, k):
    import py_ballisticcalc as pb
    if k == 'fresh':
        return pb.Calculator()
    if k == 'fresh1':
        return pb.Calculator(_config=dict(CFG1))
    return w['K'][k]


def run(op, w):
    import py_ballisticcalc as pb
    U = pb.Unit
    kind = op[0]
    try:
        if kind == 'zero':
            return ['ok', bits(calc_for(w, op[1]).set_weapon_zero(w['S'][op[2]], U.Yard(25)).raw_value)]
        if kind == 'zerofar':
            return ['ok', bits(calc_for(w, op[1]).set_weapon_zero(w['S'][op[2]], U.Yard(200)).raw_value)]
        if kind in ('fire', 'firex'):
            hr = calc_for(w, op[1]).fire(w['S'][op[2]], U.Yard(40), U.Yard(10), kind == 'firex')
            res = ['ok', traj_bits(hr.trajectory)]
            if w.get('keep') is not None:
                # 'kept' part: the caller keeps the result untouched; LATER computations must not change it (no buffer shared with the calculator)
                w['keep'].append((op, hr.trajectory, res[1], hr))
                return res
            # what the caller does with a RESULT is his business: it must not reach later computations (no shared / remembered result objects)
            del hr.trajectory[1:]
            for q in (hr.trajectory[0].distance, hr.trajectory[0].height, hr.trajectory[0].velocity):
                q << {'Distance': U.Kilometer, 'Velocity': U.KT}[type(q).__name__]
            return res
        if kind == 'danger':
            r = calc_for(w, op[1]).fire(w['S'][op[2]], U.Yard(40), U.Yard(1), True)
            d = r.danger_space(U.Yard(20), U.Inch(5))
            if w.get('keep') is not None:
                w['keep'].append((op, r.trajectory, traj_bits(r.trajectory), (r, d)))
            return ['ok', bits(d.begin.distance.raw_value), bits(d.end.distance.raw_value)]
        if kind == 'edit':
            # the caller edits an argument object in place between computations
            if op[1] in w['edits']:
                return ['ok', 'already']
            if op[1] == 'swapB':
                a, b = w['S']['B']._winds
                a.until_distance, b.until_distance = b.until_distance, a.until_distance
            elif op[1] == 'appendA':
                w['windsA'].append(pb.Wind(U.MPH(8), U.Degree(270), U.Yard(15)))
            elif op[1] == 'mvG':
                w['S']['G'].ammo.mv = U.FPS(2400)
            elif op[1] == 'bcA':
                w['dmA'].BC = 0.3
            elif op[1] == 'defwindD':
                dw = w['S']['D'].winds[0]          # the wind the library created for a shot given none
                dw.velocity = U.MPH(20)
                dw.direction_from = U.Degree(90)
            w['edits'].add(op[1])
            return ['ok', op[1]]
        if kind == 'new_calc':
            w['K'][op[1]] = pb.Calculator() if op[1] == 'K0' else pb.Calculator(_config=dict(CFG1))
            return ['ok', 'created']       # constructing a calculator is not a computation: only what it computes afterwards is compared
        if kind == 'new_multibc':
            m = pb.DragModelMultiBC([pb.BCPoint(0.25, Mach=2.0), pb.BCPoint(0.2, Mach=1.0)], pb.TableG7, U.Grain(168), U.Inch(0.308))
            return ['ok', model_obs(m)]
        if kind == 'new_multibc_from':
            m = pb.DragModelMultiBC([pb.BCPoint(0.25, Mach=2.0), pb.BCPoint(0.2, Mach=1.0)], w['S'][op[1]].ammo.dm.drag_table)
            return ['ok', model_obs(m)]
        if kind == 'new_vacuum':
            v_ = pb.Vacuum(U.Foot(300), U.Celsius(-2))
            return ['ok', [bits(v_.density_ratio), bits(v_.altitude.raw_value), [bits(x) for x in v_.get_density_factor_and_mach_for_altitude(4000.0)][:1]]]
        if kind == 'new_atmo':
            a = pb.Atmo(U.Foot(1000), U.InHg(28), U.Fahrenheit(80), 30)
            return ['ok', [bits(a.altitude.raw_value), bits(a.pressure.raw_value), bits(a.temperature.raw_value), bits(a.humidity), bits(a.density_ratio),
                          bits(a.mach.raw_value), [bits(x) for x in a.get_density_factor_and_mach_for_altitude(3000.0)]]]
        if kind == 'new_shot':
            old = w['S'][op[1]]
            # same values, new objects (the winds are copied by value so that the order of this op and of an edit of D's wind does not matter
            # to the reference world, which applies edits at construction)
            w['S'][op[1]] = pb.Shot(old.weapon, pb.Ammo(old.ammo.dm, U.FPS(old.ammo.mv >> U.FPS)), atmo=old.atmo,
                                    winds=[pb.Wind(x.velocity, x.direction_from, x.until_distance) for x in old._winds])
            return ['ok', 'replaced']
    except pb.RangeError as e:
        res = ['RangeError', e.reason, traj_bits(e.incomplete_trajectory)]
        if w.get('keep') is not None:
            w['keep'].append((op, e.incomplete_trajectory, res[2], e))
            return res
        del e.incomplete_trajectory[:]
        return res
    except pb.ZeroFindingError as e:
        return ['ZeroFindingError', bits(e.zero_finding_error), e.iterations_count]
    raise HarnessError(f'unknown op {op}')


def model_obs(m):
    """public observables of a drag model (private bookkeeping attributes are nobody's business)"""
    return H.digest((bits(m.BC), [(bits(p.Mach), bits(p.CD)) for p in m.drag_table], bits(m.weight.raw_value), bits(m.diameter.raw_value), bits(m.length.raw_value)))


def all_ops():
    ops = [[kind, k, s] for kind in ('zero', 'fire', 'firex', 'danger') for k in ('K0', 'K1') for s in 'ABCDFGH']
    ops += [[kind, 'fresh', s] for kind in ('zero', 'fire', 'firex', 'danger') for s in 'ACG']
    ops += [['zerofar', k, 'E'] for k in ('K0', 'K1', 'fresh')]
    ops += [['new_calc', 'K0'], ['new_calc', 'K1'], ['new_vacuum'], ['new_multibc'], ['new_multibc_from', 'A'], ['new_multibc_from', 'B'], ['new_atmo'], ['new_shot', 'D'],
            ['edit', 'swapB'], ['edit', 'appendA'], ['edit', 'mvG'], ['edit', 'bcA'], ['edit', 'defwindD']]
    return ops


REF_OF = {'K0': 'fresh', 'K1': 'fresh1', 'fresh': 'fresh', 'fresh1': 'fresh1'}
_MEMO = {}


def reference(op, z1, z2, swapped_d, edits=()):
    key = (tuple(op), None if z1 is None else bits(z1), None if z2 is None else bits(z2), swapped_d, tuple(sorted(edits)))
    if key not in _MEMO:
        with H.pristine():        # fresh objects AND the library's module state as imported; the live module state is put back afterwards
            w = world(z1, z2, tuple(sorted(edits)))
            if swapped_d:
                run(['new_shot', 'D'], w)
            rop = list(op)
            if rop[0] in ('zero', 'zerofar', 'fire', 'firex', 'danger'):
                rop[1] = REF_OF[rop[1]]     # the reference uses a brand-new calculator of the same configuration
            _MEMO[key] = run(rop, w)
    return _MEMO[key]


def snapshot(w):
    """magnitudes and non-quantity fields of every argument object (display units dropped), zero elevations kept apart"""
    snap = {}
    for name in ('dmA', 'dmB', 'dmC', 'atm'):
        snap[name] = H.fp(w[name], display=False)
    for wn in ('W1', 'W2'):
        wp = w[wn]
        snap[wn] = H.fp((wp.sight_height, wp.twist, wp.sight), display=False)
        snap[wn + '.zero'] = bits(wp.zero_elevation.raw_value)
    for s, shot in w['S'].items():
        snap['shot' + s] = H.fp((shot.look_angle, shot.relative_angle, shot.cant_angle, shot.ammo, shot.atmo, shot._winds), display=False)
        snap['shot' + s + '.weapon'] = 'W1' if shot.weapon is w['W1'] else ('W2' if shot.weapon is w['W2'] else 'other')
    return snap


_G0 = []


def tables_fp():
    """the module-level drag tables (the only module state the statement protects: 'drag tables passed in').
    Other module/class level state may legitimately change (e.g. a memo cache) as long as results do not."""
    import py_ballisticcalc.drag_tables as dt
    return H.digest(tuple((k, repr(v)) for k, v in sorted(vars(dt).items()) if k.startswith('Table')))


def global0():
    if not _G0:
        _G0.append(tables_fp())
    return _G0[0]


def transition(w, op, label, swapped_d):
    """apply op to the live world and evaluate the oracle; returns (result, list of violation messages)"""
    z1 = w['W1'].zero_elevation.raw_value
    z2 = w['W2'].zero_elevation.raw_value
    before = snapshot(w)
    g_before = global0()
    edits_before = tuple(sorted(w['edits']))
    got = run(op, w)
    exp = reference(op, z1, z2, swapped_d, edits_before)
    out = []
    if got != exp:
        out.append(f'{label}: result of {op} differs from the same operation in a fresh world (same weapon zero elevations) [{got[0]} vs {exp[0]}]')
    after = snapshot(w)
    allowed = set()
    if op[0] in ('zero', 'zerofar') and got[0] == 'ok':
        allowed.add(before['shot' + op[2] + '.weapon'] + '.zero')
    if op[0] == 'new_shot':
        allowed.add('shot' + op[1])
    if op[0] == 'edit':
        allowed |= {'shotA', 'shotB', 'shotC', 'shotD', 'shotE', 'shotF', 'shotG', 'shotH', 'dmA'}
    for k in before:
        if before[k] != after.get(k) and k not in allowed:
            out.append(f'{label}: operation {op} changed {k} of the objects passed in')
    if op[0] in ('zero', 'zerofar') and got[0] != 'ok':
        for wn in ('W1.zero', 'W2.zero'):
            if before[wn] != after[wn]:
                out.append(f'{label}: failed zeroing {op} changed the stored zero {wn}')
    if tables_fp() != g_before:
        out.append(f'{label}: operation {op} changed a module-level drag table')
    return got, out


def shares(ops):
    """do the ops of a history touch a common object (weapon, ammo, drag model, calculator)?"""
    objs = []
    groups = {'A': {'W1', 'dmA', 'ammoA', 'windsA'}, 'B': {'W2', 'dmB', 'atm'}, 'C': {'W1', 'dmA'}, 'D': {'W1', 'dmB'}, 'E': {'W2', 'dmA', 'atm'},
              'F': {'W2', 'ammoA', 'dmA', 'atm', 'windsA'}, 'G': {'W1', 'dmC'}, 'H': {'W1', 'dmA'}, 'swapB': {'W2', 'dmB', 'atm'}, 'appendA': {'windsA'}, 'mvG': {'dmC'}, 'bcA': {'dmA'}, 'defwindD': {'W1', 'dmB', 'dmA', 'dmC'}}
    for op in ops:
        s = set()
        for x in op[1:]:
            if x in groups:
                s |= groups[x]
            if x in ('K0', 'K1'):
                s.add(x)
        if op[0].startswith('new_multibc'):
            s.add('TableG7')
        objs.append(s)
    return any(a & b for a, b in itertools.combinations(objs, 2))


def histories(cell):
    """all histories of exactly `depth` ops that start with the given prefix; the last transition of each is checked"""
    prefix, depth = cell
    ops = all_ops()
    out = []
    n = nt = 0
    outcomes = set()
    for tail in itertools.product(range(len(ops)), repeat=depth - len(prefix)):
        h = [ops[i] for i in prefix] + [ops[i] for i in tail]
        H.restore_pristine()
        w = world()
        swapped = False
        for op in h[:-1]:
            run(op, w)
            if op == ['new_shot', 'D']:
                swapped = True
        got, msgs = transition(w, h[-1], f'after {h[:-1]}', swapped)
        n += 1
        outcomes.add(got[0])
        if shares(h):
            nt += 1
        for m in msgs:
            if len(out) < 3:
                out.append({'msg': m, 'key': None, 'history': h})
        if len(out) >= 3:
            break
    return {'v': out, 'n': n, 'states': n, 'transitions': n, 'traces': n, 'nt': cell if nt else None, 'obs': sorted(outcomes),
            'sample': {'last_history_of_this_cell': h, 'its_last_result': got[0], 'compared_with': 'same last op in a fresh world built with the same zero elevations / argument edits'}}


def chain(cell):
    """long-used calculators: 200 repetitions of a cycle, every transition checked"""
    cycle, reps = cell
    ops = all_ops()
    w = world()
    out = []
    n = 0
    swapped = False
    for r in range(reps):
        for i in cycle:
            op = ops[i]
            got, msgs = transition(w, op, f'repetition {r} of cycle {[ops[j] for j in cycle]}', swapped)
            if op == ['new_shot', 'D']:
                swapped = True
            n += 1
            for m in msgs:
                if len(out) < 3:
                    out.append({'msg': m, 'key': None})
        if out:
            break
    return {'v': out, 'n': n, 'states': n, 'transitions': n, 'traces': 1, 'nt': cell}


# ---- closure ------------------------------------------------------------------------------------------------------------
def closure_ops(alpha='small'):
    """sub-alphabet with a finite state space: each weapon is zeroed through one (calculator, shot) pair only"""
    shots = 'ABCDF' if alpha == 'small' else 'ABCDFGH'
    ops = [['zero', 'K0', 'A'], ['zero', 'K1', 'B']]
    ops += [[kind, k, s] for kind in ('fire', 'firex') for k in ('K0', 'K1') for s in shots]
    ops += [['danger', 'K0', 'A'], ['danger', 'K1', 'F'], ['zerofar', 'K0', 'E'], ['new_calc', 'K0'], ['new_multibc_from', 'A'], ['new_shot', 'D']]
    if alpha != 'small':
        ops += [['edit', 'swapB']]
    return ops


def state_fp(w):
    return H.digest((H.fp(w['K']), H.fp(w['S']), H.fp((w['W1'], w['W2'])), sorted(w['edits']), H.global_fp()))


def expand(cell):
    """expand one state (given by a history that reaches it): apply every op of the closure alphabet to a fresh replay"""
    alpha, history = cell
    ops = closure_ops(alpha)
    out = []
    succ = []
    for i, op in enumerate(ops):
        w = world()
        swapped = False
        for j in history:
            run(ops[j], w)
            if ops[j] == ['new_shot', 'D']:
                swapped = True
        got, msgs = transition(w, op, f'closure state reached by {[ops[j] for j in history]}', swapped)
        for m in msgs:
            if len(out) < 3:
                out.append({'msg': m, 'key': None})
        succ.append([i, state_fp(w)])
    return {'v': out, 'n': len(ops), 'transitions': len(ops), 'traces': len(ops), 'succ': succ, 'nt': [alpha, history] if len(history) >= 2 else None}


AFFECTED = {'swapB': 'B', 'appendA': 'AF', 'mvG': 'G', 'bcA': 'ACFH', 'defwindD': 'D'}


def sandwich(cell):
    """compute - edit an argument in place - compute again with the SAME calculator: every history [op1, edit e, op3] with op1 any computation of
    calculator k and op3 any computation of k on a shot that uses the edited object (state derived from an argument at first use and keyed by
    object identity goes stale here; the depth-3 histories of the thorough tier contain these, the quick tier gets them as a family of their own)"""
    e, k, k1 = cell
    out = []
    n = 0
    outcomes = set()
    kinds = ('zero', 'fire', 'firex', 'danger')
    for s1, k3, s3 in itertools.product('ABCDFGH', kinds, AFFECTED[e]):
        h = [[k1, k, s1], ['edit', e], [k3, k, s3]]
        H.restore_pristine()
        w = world()
        for op in h[:-1]:
            run(op, w)
        got, msgs = transition(w, h[-1], f'after {h[:-1]}', False)
        n += 1
        outcomes.add(got[0])
        for m in msgs:
            if len(out) < 3:
                out.append({'msg': m, 'key': None, 'history': h})
        if len(out) >= 3:
            break
    return {'v': out, 'n': n, 'states': n, 'transitions': n, 'traces': n, 'nt': cell, 'obs': sorted(outcomes)}


def kept(cell):
    """results are values: whatever a computation returned (or attached to the error it raised) stays what it was when LATER computations run -
    every ordered pair (first computation, second computation); the first result is kept untouched and read again after the second"""
    i, = cell
    ops = [o for o in all_ops() if o[0] in ('fire', 'firex', 'danger', 'zero', 'zerofar')]
    first = ops[i]
    out = []
    n = 0
    for second in ops:
        H.restore_pristine()
        w = world()
        w['keep'] = []
        run(first, w)
        run(second, w)
        n += 1
        for op_, rows, digest_, _holder in w['keep'][:1]:
            now = traj_bits(rows)
            if now != digest_:
                out.append({'msg': f'the rows returned by (or attached to the error of) {op_} changed when {second} ran afterwards ({len(digest_)} rows then, {len(now)} rows now)', 'key': None})
        if len(out) >= 2:
            break
    return {'v': out, 'n': n, 'states': n, 'transitions': 2 * n, 'traces': n, 'nt': cell}


PARTS = {'histories': histories, 'chain': chain, 'expand': expand, 'sandwich': sandwich, 'kept': kept}
from mc.checks import c10_sched as _sched  # noqa: E402
PARTS.update(_sched.PARTS)


def explore(ctx):
    """explicit-state BFS to closure (layer-synchronous, states deduplicated by the full-state fingerprint)"""
    from mc import core
    import os
    core.fresh_world()
    if os.environ.get('VERIF_C10_ONLY') == 'sched':
        from mc.checks import c10_sched
        ctx.cap('development run: schedule exploration only')
        return c10_sched.explore(ctx)
    cap_states = 2000 if ctx.tier == 'quick' else 50000
    cap_s = 60 if ctx.tier == 'quick' else 1500
    t0 = time.time()
    alpha = 'small' if ctx.tier == 'quick' else 'large'
    seen = {state_fp(world()): []}
    frontier = [[]]
    depth = 0
    while frontier:
        res = ctx.run_part('expand', [[alpha, h] for h in frontier])
        nxt = []
        for hist_, r in zip(frontier, res):
            for i, s in r.get('succ', []):
                if s not in seen:
                    seen[s] = hist_ + [i]
                    nxt.append(hist_ + [i])
        depth += 1
        frontier = nxt
        if ctx.viol:
            ctx.cap(f'closure BFS stopped at depth {depth}: violations found')
            break
        if frontier and (len(seen) > cap_states or time.time() - t0 > cap_s):
            ctx.cap(f'closure BFS stopped after depth {depth} with {len(seen)} states (cap {cap_states} states / {cap_s} s); all states up to that depth were fully expanded')
            break
    ctx.states += len(seen)
    ctx.extra['closure_states'] = len(seen)
    ctx.extra['closure_depth_completed'] = depth
    ctx.extra['closure_closed'] = not frontier
    # E4
    from mc.checks import c10_sched
    if ctx.viol:
        ctx.cap('schedule exploration skipped: sequential histories already violate the property')
        return
    c10_sched.explore(ctx)


def plan(tier):
    import os
    if os.environ.get('VERIF_C10_ONLY') == 'sched':      # development knob (tools/try_e4.sh): schedule exploration only; never used by a registered command
        return []
    ops = all_ops()
    n = len(ops)
    if tier == 'quick':
        hs = [[[i], 2] for i in range(n)] + [[[], 1]]
    else:
        hs = [[[i, j], 3] for i in range(n) for j in range(n)] + [[[i], 2] for i in range(n)] + [[[], 1]]
    fire_k0_a = ops.index(['fire', 'K0', 'A'])
    reps = 200 if tier == 'thorough' else 12
    ix = ops.index
    cyc = [[[ix(['zero', 'K0', 'A']), ix(['fire', 'K0', 'B']), ix(['firex', 'K0', 'C']), fire_k0_a], reps],
           [[ix(['fire', 'K1', 'F']), ix(['danger', 'K1', 'A']), ix(['zerofar', 'K1', 'E']), ix(['new_multibc_from', 'A'])], reps],
           [[ix(['firex', 'K0', 'D']), ix(['zero', 'K1', 'D']), ix(['fire', 'K0', 'D']), ix(['new_shot', 'D'])], reps],
           [[ix(['danger', 'K0', 'F']), ix(['zero', 'fresh', 'A']), ix(['fire', 'K0', 'A']), ix(['new_calc', 'K0'])], reps]]
    sw = [[e, k, k1] for e in AFFECTED for k in ('K0', 'K1') for k1 in ('zero', 'fire', 'firex', 'danger')]
    n_compute = len([o for o in ops if o[0] in ('fire', 'firex', 'danger', 'zero', 'zerofar')])
    return [('histories', hs), ('chain', cyc), ('sandwich', sw), ('kept', [[i] for i in range(n_compute)])]

"""E4 part of C10: thread interleavings of calculators owned by distinct threads on shared ammo / atmosphere / winds."""
import itertools

from mc import hist as H
from mc import sched
from mc.core import bits, HarnessError
from mc.world import traj_bits

BODYSETS = {
    'fire||fire': ['fire', 'fire'],
    'fire||zero': ['fire', 'zero'],
    'fire||danger': ['fire', 'danger'],
    'zero||zero': ['zero', 'zero'],
    'firex||fire': ['firex', 'fire'],
    'fire||fire||fire': ['fire', 'fire', 'fire'],
    # threads whose shots do NOT share the drag model (different tables): per-shot derived state that leaks between calculators shows up here
    'fire||fire(G1)': ['fire', 'fire:G1'],
    'zero||fire(G1)': ['zero', 'fire:G1'],
    # steep shots with a 20-ft maximum step: within a few steps both projectiles are more than 30 ft above the (shared) station, where the
    # atmosphere is evaluated per step instead of taken from the station values
    'steep||steep': ['steep', 'steep'],
    # one thread builds its arguments from BARE numbers (read in the preferred units) while the other computes: anything that switches the
    # preferred units or other process-wide settings for the duration of a computation shows up in the first thread's result
    'bare||fire': ['bare', 'fire'],
    'bare||zero': ['bare', 'zero'],
    # construction inside the threads (explored at LINE granularity: generated dataclass constructors are no scheduling points): drag models over the
    # SAME standard table, a multi-BC model, ten atmospheres of which two are equal (anything parsed, memoised or interned once per process
    # shows up when its first use is interleaved), weapon / ammunition / shot / winds / sight / calculator
    'construct||construct': ['construct', 'construct'],
    # one sight object shared by two threads that ask for different distances and magnifications
    'sight||sight': ['sight', 'sight'],
    # look-ups in two results at the same time (each thread its own result object)
    'lookup||lookup': ['lookup', 'lookup'],
    # round 10: objects SHARED between the threads beyond ammunition / atmosphere / winds -
    # two calculators with EQUAL settings (anything pooled per configuration is then shared between the threads)
    'firesame||firesame': ['firesame', 'firesame'],
    # one Shot object fired by two threads, each with its own calculator (line granularity: lazily derived fields of the shot)
    'fireshot||fireshot': ['fireshot', 'fireshot'],
    # one result object looked up by two threads in DIFFERENT units; one thread asks a sight for clicks at a target distance taken from a row
    # of that result while the other merely re-displays rows of it (display units of shared quantities may change at any time, magnitudes never)
    'lookupsh||lookupsh': ['lookupsh', 'lookupsh'],
    'sightrow||display': ['sightrow', 'display'],
    # unit arithmetic in two threads at once (line granularity): every dimension, different magnitudes per thread, tangent-based angular units
    'units||units': ['units', 'units'],
}
LINE_SETS = ('construct||construct', 'fireshot||fireshot', 'units||units')
# body sets explored at line granularity IN ADDITION to call granularity (a window that lies between two function entries, e.g. a module-level
# memo filled in place by a loop without calls): same table in both threads / different tables
LINE_ALSO = ('fire||fire', 'fire||fire(G1)')


def shared_world():
    import py_ballisticcalc as pb
    U = pb.Unit
    dm = pb.DragModel(0.223, pb.TableG7, U.Grain(168), U.Inch(0.308), U.Inch(1.2))
    return {'dm': dm, 'ammo': pb.Ammo(dm, U.FPS(2750)), 'atmo': pb.Atmo.icao(U.Foot(100)),
            # segment boundaries INSIDE the 1-2 ft bodies, so that the wind cursor advances during the interleaved region
            'sight': pb.Sight('SFP', U.Meter(100), U.Mil(0.1), U.MOA(0.25)),
            'winds': [pb.Wind(U.MPH(5), U.Degree(90), U.Foot(0.3)), pb.Wind(U.MPH(9), U.Degree(200), U.Foot(0.8)), pb.Wind(U.MPH(3), U.Degree(10), U.Foot(1.3))]}


def shared_extras(sw):
    """shared objects of the round-10 body sets (built lazily: only those sets pay for them)"""
    import py_ballisticcalc as pb
    U = pb.Unit
    if 'shot' not in sw:
        sw['shot'] = pb.Shot(pb.Weapon(U.Inch(2.5), U.Inch(11), U.MOA(5)), sw['ammo'], look_angle=U.Degree(3), atmo=sw['atmo'], cant_angle=U.Degree(10),
                             winds=[pb.Wind(U.MPH(9), U.Degree(200), U.Foot(0.8)), pb.Wind(U.MPH(5), U.Degree(90), U.Foot(0.3)), pb.Wind(U.MPH(3), U.Degree(10), U.Foot(1.3))])
        # the result object comes from ANOTHER shot object: the shared shot reaches the threads unused (lazily derived fields still unset)
        other = pb.Shot(pb.Weapon(U.Inch(2.5), U.Inch(11), U.MOA(5)), sw['ammo'], look_angle=U.Degree(3), atmo=sw['atmo'], cant_angle=U.Degree(10), winds=list(sw['winds']))
        sw['hr'] = pb.Calculator().fire(other, U.Foot(3.0), U.Foot(0.5), True)
    return sw


def body(kind, k, sw):
    import py_ballisticcalc as pb
    U = pb.Unit
    kind, _, own = kind.partition(':')
    ammo = sw['ammo'] if not own else pb.Ammo(pb.DragModel(0.35, pb.TableG1, U.Grain(150), U.Inch(0.3), U.Inch(1.1)), U.FPS(2400))

    def f():
        # own weapon (zeroing legitimately writes it), own calculator; everything else is shared between the threads
        # every thread has its own non-zero look angle (state derived from the sight line must not leak between threads)
        shot = pb.Shot(pb.Weapon(U.Inch(2 + k), U.Inch(12), U.MOA(4 + 3 * k)), ammo, look_angle=U.Degree(2 * (k + 1) if kind != 'steep' else 70 + 5 * k),
                       atmo=sw['atmo'], winds=sw['winds'], cant_angle=U.Degree(15 * k))
        c = pb.Calculator(_config={'max_calc_step_size_feet': (0.5 if k != 1 else 0.4) if kind != 'steep' else 20.0})
        if kind == 'steep':
            return ['ok', traj_bits(c.fire(shot, U.Foot(14.0), U.Foot(7.0)).trajectory)]
        if kind == 'construct':
            obs = []
            for tab, bc in ((pb.TableG7, 0.3), (pb.TableG1, 0.4)):
                m = pb.DragModel(bc, tab, U.Grain(150 + k), U.Inch(0.308), U.Inch(1.2))
                obs.append([bits(m.BC), len(m.drag_table), bits(m.drag_table[-1].Mach), bits(sum(p.CD for p in m.drag_table))])
            mb = pb.DragModelMultiBC([pb.BCPoint(0.25, Mach=2.0), pb.BCPoint(0.2, V=U.FPS(1200))], pb.TableG7, U.Grain(168), U.Inch(0.308))
            obs.append([bits(mb.BC), len(mb.drag_table), bits(sum(p.CD for p in mb.drag_table))])
            for i in (0, 0, 1, 2, 3, 4, 5, 6, 7, 8):      # two equal ones first, then eight more distinct ones
                a_ = pb.Atmo(U.Foot(100 * i), U.InHg(29.92 - 0.1 * i), U.Fahrenheit(59 - i), 0.1 * (i % 3))
                obs.append([bits(a_.density_ratio), bits(a_.mach.raw_value)])
            s_ = pb.Shot(pb.Weapon(U.Inch(2), U.Inch(10), U.MOA(3), pb.Sight('SFP', U.Meter(100), U.Mil(0.1), U.Mil(0.1))), pb.Ammo(m, U.FPS(2700), U.Celsius(15), 0.01, True),
                         U.Degree(3), U.MOA(2), U.Degree(1), a_, [pb.Wind(U.MPH(4), U.Degree(80), U.Yard(50)), pb.Wind(U.MPH(2), U.Degree(10))])
            obs.append([bits(s_.barrel_elevation.raw_value), bits(s_.barrel_azimuth.raw_value), [bits(w_.until_distance.raw_value) for w_ in s_.winds]])
            c_ = pb.Calculator(_config={'cMaxIterations': 5 + k})
            obs.append(H.digest(H.fp(tuple(c_._calc._config))))      # the EFFECTIVE settings of the new calculator (c_._config is just the dict that was passed in)
            return ['ok', obs]
        if kind == 'sight':
            res = []
            for j in range(3):
                a_ = sw['sight'].get_adjustment(U.Meter(100 + 150 * k + 40 * j), U.Mil(1.3 + k), U.Mil(-0.4 * (k + 1)), 3 + 4 * k + j)
                res.append([bits(a_.vertical), bits(a_.horizontal)])
            return ['ok', res]
        if kind == 'lookup':
            from py_ballisticcalc import helpers as HP
            hr = c.fire(shot, U.Foot(3.0), U.Foot(0.5), True)
            res = []
            for q in (0.6 + 0.9 * k, 2.2 - 0.7 * k):
                res.append([HP.find_index_of_point_for_distance(hr, q, U.Foot), bits(HP.find_time_for_distance_in_shot(hr, q, U.Foot)),
                            HP.find_index_for_time_point(hr, q / 3000.0), hr.index_at_distance(U.Foot(q)), bits(hr.get_at_distance(U.Foot(q)).time)])
            return ['ok', res]
        if kind == 'bare':
            # default preferences: sight height in, twist in, velocity fps, angles deg, distances yd, temperature F, pressure inHg
            res = []
            for rng in (0.3,):
                w_ = pb.Weapon(2 + k, 12, pb.Unit.MOA(4))
                a_ = pb.Ammo(sw['dm'], 2750, 59)
                s_ = pb.Shot(w_, a_, 2, 0, 0, pb.Atmo(100, 29.8, 60, 0.5), [pb.Wind(5, 90, 0.2), pb.Wind(9, 200)])
                res.append(traj_bits(pb.Calculator().fire(s_, rng, 0.1).trajectory))
            return ['ok', res]
        if kind == 'fire':
            return ['ok', traj_bits(c.fire(shot, U.Foot(1.0), U.Foot(0.5)).trajectory)]
        if kind == 'firesame':
            return ['ok', traj_bits(pb.Calculator().fire(shot, U.Foot(1.0), U.Foot(0.5)).trajectory)]
        if kind == 'fireshot':
            return ['ok', traj_bits(c.fire(sw['shot'], U.Foot(1.0 + 0.2 * k), U.Foot(0.5)).trajectory)]
        if kind == 'lookupsh':
            from py_ballisticcalc import helpers as HP
            hr, un = sw['hr'], (U.Foot, U.Meter, U.Inch)[k]
            res = []
            for q_ft in (0.6 + 0.9 * k, 2.2 - 0.7 * k):
                q = U.Foot(q_ft) >> un
                res.append([HP.find_index_of_point_for_distance(hr, q, un), bits(HP.find_time_for_distance_in_shot(hr, q, un)),
                            hr.index_at_distance(un(q)), bits(hr.get_at_distance(un(q)).time), bits(hr.trajectory[2 + k].distance >> un)])
            return ['ok', res]
        if kind == 'sightrow':
            row = sw['hr'].trajectory[3]
            a_ = sw['sight'].get_adjustment(row.distance, U.Mil(1.3), U.Mil(-0.4), 4)
            b_ = sw['sight'].get_trajectory_adjustment(row, 6)
            return ['ok', [bits(a_.vertical), bits(a_.horizontal), bits(b_.vertical), bits(b_.horizontal)]]
        if kind == 'units':
            res = []
            for v0, units in ((30.0 + 7 * k, ('Degree', 'CmPer100m', 'InchesPer100Yd', 'Mil', 'MOA', 'Thousandth', 'MRad', 'Radian')), (100.0 + 9 * k, ('Yard', 'Meter', 'Inch', 'Mile', 'NauticalMile')),
                              (15.0 - 40 * k, ('Celsius', 'Fahrenheit', 'Kelvin', 'Rankin')), (800.0 + k, ('MPS', 'FPS', 'KMH', 'KT', 'MPH')), (29.9 - k, ('InHg', 'hPa', 'PSI', 'MmHg', 'Bar')),
                              (168.0 + k, ('Grain', 'Gram', 'Pound', 'Newton', 'Ounce', 'Kilogram')), (2000.0 + k, ('FootPound', 'Joule'))):
                q = U[units[0]](v0)
                for un in units:
                    res.append(bits(q >> U[un]))
                    res.append(bits(U[un](q >> U[un]).raw_value))
                res.append([str(q), hash(q) == hash(U[units[0]](v0))])
            return ['ok', res]
        if kind == 'display':
            # re-displaying shared quantities is legitimate at any time; what this thread reads back is a magnitude
            res = []
            for un in (U.Yard, U.Inch, U.Meter):      # ends on a unit that is NOT the preferred one
                for row in sw['hr'].trajectory[2:5]:
                    row.distance << un
                    res.append(bits(row.distance.raw_value))
            (sw['sight'].scale_factor << U.Yard) and (sw['sight'].v_click_size << U.MOA)
            return ['ok', res]
        if kind == 'firex':
            return ['ok', traj_bits(c.fire(shot, U.Foot(1.5), U.Foot(0.5), True, 0.0001).trajectory)]
        if kind == 'zero':
            z = c.set_weapon_zero(shot, U.Foot(2.0))
            return ['ok', bits(z.raw_value), bits(shot.weapon.zero_elevation.raw_value)]
        if kind == 'danger':
            r = c.fire(shot, U.Foot(2.0), U.Foot(0.5), True)
            d = r.danger_space(U.Foot(1.0), U.Inch(1))
            return ['ok', bits(d.begin.distance.raw_value), bits(d.end.distance.raw_value), traj_bits(r.trajectory)]
        raise HarnessError(kind)
    return f


def make_bodies(bs):
    sw = shared_world()
    if any(k in ('fireshot', 'lookupsh', 'sightrow', 'display') for k in BODYSETS[bs]):
        shared_extras(sw)
    return [body(kind, k, sw) for k, kind in enumerate(BODYSETS[bs])], sw


_SOLO = {}


def solo(bs):
    if bs not in _SOLO:
        res = []
        for k, kind in enumerate(BODYSETS[bs]):
            H.restore_pristine()
            bodies, sw = make_bodies(bs)
            res.append(bodies[k]())
        _SOLO[bs] = res
    return _SOLO[bs]


def run_schedule(bs, order, schedule, gran):
    H.restore_pristine()       # every execution starts from the library state as imported (a replay must meet the same world)
    bodies, sw = make_bodies(bs)
    r = sched.Run(bodies, schedule, order, gran)
    res = r.run()
    return res, r


def check_schedule(bs, order, schedule, gran):
    """returns (violation or None, Run)"""
    exp = solo(bs)
    res, r = run_schedule(bs, order, schedule, gran)
    if res == exp:
        return None, r
    # replay twice: the same schedule must fail the same way every time, and follow the same point sequence
    res2, r2 = run_schedule(bs, order, schedule, gran)
    res3, r3 = run_schedule(bs, order, schedule, gran)
    if not (res2 == res and res3 == res and r2.signature() == r.signature() == r3.signature()):
        raise HarnessError(f'schedule {schedule} of {bs} is not reproducible (uncaptured nondeterminism)')
    bad = [k for k in range(len(exp)) if res[k] != exp[k]]
    v = {'msg': f'{bs} order {order} schedule {schedule} ({gran} granularity): thread(s) {bad} computed a result that differs from the same computation run alone '
                f'({[res[k][0:2] if res[k][0] != "ok" else "ok" for k in bad]})',
         'key': None, 'replay_part': 'one', 'replay_cell': [bs, list(order), {str(a): b for a, b in schedule.items()}, gran],
         'switch_points': [list(r.points[i]) for i in sorted(schedule) if i < len(r.points)]}
    return v, r


def not_done(points, j, n):
    """threads that can be switched to at global point j (not finished before j)"""
    out = []
    for x in range(n):
        later = any(p[0] == x for p in points[j:])
        earlier = any(p[0] == x for p in points[:j])
        if later or not earlier:
            out.append(x)
    return out


def one(cell):
    bs, order, schedule, gran = cell
    v, r = check_schedule(bs, order, {int(a): b for a, b in schedule.items()}, gran)
    return {'v': [v] if v else [], 'n': 1, 'states': len(r.points), 'transitions': r.switches, 'traces': 1, 'nt': cell if schedule else None}


def level(cell):
    """all schedules whose FIRST pre-emption is at global point i of the base run with hand-over priority `order` (up to `bound` pre-emptions)"""
    bs, order, i, bound, gran = cell
    n = len(BODYSETS[bs])
    out = []
    runs = 0
    base_v, base = check_schedule(bs, order, {}, gran)
    runs += 1
    if base_v and i == 0:
        out.append(base_v)
    if i >= len(base.points):
        return {'vac': True, 'n': runs}
    t = base.points[i][0]
    outcomes = set()
    for b in not_done(base.points, i, n):
        if b == t:
            continue
        v1, r1 = check_schedule(bs, order, {i: b}, gran)
        runs += 1
        outcomes.add(len(r1.points))
        if v1 and len(out) < 3:
            out.append(v1)
        if bound >= 2:
            P1 = r1.points
            for j in range(i + 1, len(P1)):
                r_t = P1[j][0]
                for c in not_done(P1, j, n):
                    if c == r_t:
                        continue
                    v2, r2 = check_schedule(bs, order, {i: b, j: c}, gran)
                    runs += 1
                    if v2 and len(out) < 3:
                        out.append(v2)
    return {'v': out, 'n': runs, 'transitions': runs, 'traces': runs, 'nt': cell, 'obs': sorted(outcomes)[:3], 'extra': {'schedules_explored': runs},
            'sample': {'bodies': BODYSETS[bs], 'handover_priority': order, 'first_preemption_at_point': i, 'point': list(base.points[i]),
                       'points_in_base_run': len(base.points), 'schedules_run_in_this_cell': runs, 'oracle': 'each thread result bit-identical to its solo run'}}


def monitor(cell):
    """shared-write monitor: in a solo traced run, at how many scheduling points does shared state differ from its value at entry?"""
    bs, k = cell
    H.restore_pristine()       # hermetic like every schedule execution: a memo already filled by an earlier case of this worker would hide the window
    bodies, sw = make_bodies(bs)

    def shared_fp():
        return H.digest((H.fp(sw, display=False), H.global_fp(display=False)))
    base = shared_fp()
    windows = []

    import time as _t
    budget = {'spent': 0.0, 'stride': 1, 'checked': 0}

    def mon(tid, frame, idx):
        # fingerprinting everything at every point can get slow when module state grows: stay within ~20 s by striding
        if idx % budget['stride']:
            return
        t0 = _t.time()
        if shared_fp() != base:
            windows.append((idx, frame.f_code.co_name))
        budget['spent'] += _t.time() - t0
        budget['checked'] += 1
        if budget['spent'] > 20.0 * budget['stride']:
            budget['stride'] *= 4
    r = sched.Run([bodies[k]], {}, [0], 'call', monitor=mon)
    r.run()
    end_changed = shared_fp() != base
    return {'v': [], 'n': 1, 'transitions': len(r.points), 'traces': 1, 'nt': cell,
            'extra': {'shared_state_windows': len(windows), 'monitor_points': len(r.points), 'monitor_points_fingerprinted': budget['checked']}, 'windows': len(windows) + (1 if end_changed else 0),
            'obs': [len(windows) > 0]}


def free_running(cell):
    """supplement (sampling, never the deciding step): same bodies under real pre-emption"""
    import sys
    import threading
    bs, rounds = cell
    exp = solo(bs)
    old = sys.getswitchinterval()
    sys.setswitchinterval(1e-6)
    bad = 0
    try:
        for _ in range(rounds):
            bodies, sw = make_bodies(bs)
            res = [None] * len(bodies)

            def runner(k):
                res[k] = bodies[k]()
            ths = [threading.Thread(target=runner, args=(k,)) for k in range(len(bodies))]
            for t in ths:
                t.start()
            for t in ths:
                t.join()
            if res != exp:
                bad += 1
    finally:
        sys.setswitchinterval(old)
    v = [{'msg': f'{bs}: {bad} of {rounds} free-running rounds (real pre-emption, switch interval 1e-6 s) computed a result that differs from the solo run', 'key': None}] if bad else []
    return {'v': v, 'n': rounds, 'nt': None, 'extra': {'free_running_rounds_sampling': rounds}}


PARTS = {'level': level, 'one': one, 'monitor': monitor, 'free_running': free_running}

SCHED_NOTE = (' + exhaustive enumeration of the thread interleavings (cooperative baton scheduler, one pre-emption, every scheduling point of the base run as '
              'first pre-emption, each thread compared bit for bit with its solo run) of the thread bodies that exercise this property\'s code: ')


def explore_sets(ctx, sets):
    """E4 inside the check of another property: the body sets that exercise that property's code, one pre-emption, every point of the base run
    as first pre-emption (a wrong value computed only under a particular interleaving is a wrong value of that property too)"""
    cells = []
    for bs, gran in sets:
        n = len(BODYSETS[bs])
        orders = list(itertools.permutations(range(n)))
        if ctx.tier == 'quick' and gran == 'line' and len(set(BODYSETS[bs])) == 1:
            orders = orders[:1]         # the threads run the same body: quick explores one hand-over order at line granularity
        for order in orders:
            H.restore_pristine()
            bodies, sw = make_bodies(bs)
            base = sched.Run(bodies, {}, order, gran)
            base.run()
            for i in range(len(base.points)):
                cells.append([bs, list(order), i, 1, gran])
    ctx.run_part('level', cells)
    ctx.extra['schedule_sets'] = [f'{bs} ({gran})' for bs, gran in sets]
    ctx.extra['schedule_cells'] = len(cells)
    ctx.extra['preemption_bound_completed'] = 1


def explore(ctx):
    from mc import core
    core.fresh_world()
    quick = ctx.tier == 'quick'
    # monitor first: decides whether line granularity is needed
    mon_cells = [[bs, k] for bs in ('fire||zero', 'fire||danger', 'firex||fire', 'steep||steep') for k in range(2)]
    res = ctx.run_part('monitor', mon_cells)
    windows = sum(r.get('windows', 0) for r in res)
    ctx.extra['shared_state_windows_total'] = windows
    plans = []
    for bs, kinds in BODYSETS.items():
        n = len(kinds)
        bound = 1 if (quick or n == 3) else 2
        orders = list(itertools.permutations(range(n)))
        if quick and n == 3:
            orders = orders[:2]
        if quick and bs in ('zero||zero', 'firex||fire', 'bare||zero'):
            continue
        if bs in LINE_SETS:
            continue
        for order in orders:
            bodies, sw = make_bodies(bs)
            base = sched.Run(bodies, {}, order, 'call')
            base.run()
            npts = len(base.points)
            idxs = range(npts)
            if bound == 2 and bs not in ('fire||fire', 'fire||fire(G1)', 'sight||sight', 'sightrow||display'):      # two pre-emptions where the bodies are short enough
                bound_here = 1
            else:
                bound_here = bound
            for i in idxs:
                plans.append([bs, list(order), i, bound_here, 'call'])
    ctx.run_part('level', plans)
    if ctx.viol:
        ctx.cap('further schedule exploration skipped: violating schedules already found')
        return
    # bodies that construct objects: line granularity, one pre-emption, every line point as first pre-emption
    lp0 = []
    for bs in LINE_SETS:
        for order in (((0, 1),) if quick else ((0, 1), (1, 0))):       # the two threads run the same body: quick explores one hand-over order
            bodies, sw = make_bodies(bs)
            base = sched.Run(bodies, {}, order, 'line')
            base.run()
            for i in range(len(base.points)):
                lp0.append([bs, list(order), i, 1, 'line'])
    ctx.run_part('level', lp0)
    ctx.extra['construct_line_schedules'] = len(lp0)
    if ctx.viol:
        ctx.cap('further schedule exploration skipped: violating schedules already found')
        return
    # line granularity for a tiny fire||fire, in both tiers and whatever the monitor says: every line point of the base run as first pre-emption
    # (round 10: a module-level memo published before it is filled has its whole window between two function entries)
    lp = []
    for bs in LINE_ALSO:
        for order in (((0, 1),) if (quick and bs == 'fire||fire') else ((0, 1), (1, 0))):
            H.restore_pristine()
            bodies, sw = make_bodies(bs)
            base = sched.Run(bodies, {}, order, 'line')
            base.run()
            for i in range(len(base.points)):
                lp.append([bs, list(order), i, 1, 'line'])
    ctx.run_part('level', lp)
    ctx.extra['line_granularity_schedules'] = len(lp)
    if not quick:
        ctx.run_part('free_running', [[bs, 200] for bs in ('fire||fire', 'fire||zero')])
    ctx.extra['preemption_bound_completed'] = 1 if quick else 2

"""C04 - every call terminates, and an incomplete trajectory is reported truthfully.
Engine E1, full product of launch x speed x altitude x limit configuration x range x mode under a watchdog."""
import itertools

from mc.core import bits
from mc.world import row_bits

PID = 'C04'
# thread bodies (defined with engine E4, mc/checks/c10_sched.py) that exercise this property's code; explored after the parts below
SCHED_SETS = [('firesame||firesame', 'call')]
LEVEL = 'exploration'
ENGINE = 'E1'
TIMEOUT_IS_VIOLATION = True
TECHNIQUE = 'bounded exhaustive enumeration (full product launch angle x muzzle speed x station altitude x limit configuration x range x mode), each execution under a wall-clock watchdog and compared with the same request on a calculator with relaxed limits'
RULE = ('cells = launch {0,45,80,90,-45,-90 deg} x mv {2750,60,0 fps} (+ slow launches 200/60 fps x tail/head/cross wind) x station altitude {0,5000,-1000 ft} x limit configuration '
        '{defaults; each single limit loose/tight/violated at the muzzle; all 8 on/off combinations of tightened limits} x range {100 yd, 3000 yd} '
        'x {plain, extra} (time step 0.5 s for near-vertical and very slow launches so that rows exist before the limit); non-trivial = the call ended in a RangeError with at least 3 rows (so prefix and precedence clauses are exercised); '
        'outcomes = distinct (result kind, reason) classes')
ASSUMPTIONS = ['a comparison within 1e-9 relative of a limit accepts either side (rows store converted units)',
               'the "same shot without the limit" is computed with limits relaxed by a margin (half velocity, -300 ft drop, -300 ft altitude)',
               'watchdog budget per call: VERIF_CASE_BUDGET seconds (default 120)']

DEFAULTS = {'cMinimumVelocity': 50.0, 'cMaximumDrop': -15000.0, 'cMinimumAltitude': -1410.748}


def limit_configs(alt):
    tight = {'cMinimumVelocity': 500.0, 'cMaximumDrop': -10.0, 'cMinimumAltitude': alt - 5.0}
    cfgs = [{}]
    cfgs += [{'cMinimumVelocity': 0.0}, {'cMinimumVelocity': 500.0}, {'cMinimumVelocity': 3000.0}]
    cfgs += [{'cMaximumDrop': -1e6}, {'cMaximumDrop': -10.0}, {'cMaximumDrop': 0.0}]
    cfgs += [{'cMinimumAltitude': -1e5}, {'cMinimumAltitude': alt - 5.0}, {'cMinimumAltitude': alt + 1e4}]
    for mask in itertools.product((0, 1), repeat=3):
        c = {k: v for (k, v), m in zip(tight.items(), mask) if m}
        if c not in cfgs:
            cfgs.append(c)
    cfgs.append({'cMinimumVelocity': 0.0, 'cMaximumDrop': -100.0, 'cMinimumAltitude': alt - 50.0})
    return cfgs


def status(value, limit):
    """is value < limit ?  'yes' / 'no' / 'border' (within 1e-9 relative)"""
    tol = 1e-9 * max(1.0, abs(limit))
    if abs(value - limit) <= tol:
        return 'border'
    return 'yes' if value < limit else 'no'


def fire(cell):
    import py_ballisticcalc as pb
    U = pb.Unit
    ang, mv, alt, cfg, rng_yd, extra, tstep = cell[:7]
    wind = cell[7] if len(cell) > 7 else None
    look = cell[8] if len(cell) > 8 else 0.0
    rec = pb.Unit.Foot(cell[9]) if len(cell) > 9 and cell[9] else U.Yard(100)        # recording step
    dm = pb.DragModel(0.223, pb.TableG7, U.Grain(168), U.Inch(0.308), U.Inch(1.282))

    sens = len(cell) > 10 and cell[10]       # powder sensitivity switched on (powder at 15 C, air as the station says)

    def shot():
        return pb.Shot(pb.Weapon(U.Inch(2), U.Inch(12)), pb.Ammo(dm, U.FPS(mv), U.Celsius(15), 0.02, True) if sens else pb.Ammo(dm, U.FPS(mv)),
                       relative_angle=U.Degree(ang), look_angle=U.Degree(look),
                       atmo=pb.Atmo.icao(U.Foot(alt)), winds=[pb.Wind(U.MPH(wind[0]), U.Degree(wind[1]))] if wind else None)

    full = dict(DEFAULTS)
    full.update(cfg)
    out = []
    calc = pb.Calculator(_config=dict(cfg)) if cfg else pb.Calculator()
    R = U.Yard(rng_yd)
    try:
        hr = calc.fire(shot(), R, rec, extra, tstep)
        rows = hr.trajectory
        kind = 'ok'
        if not rows[-1].distance.raw_value >= R.raw_value * (1 - 1e-9):
            out.append({'msg': f'returned normally but the last row is at {rows[-1].distance >> U.Yard} yd, requested {rng_yd} yd', 'key': None})
        if len(rows) < 2:
            out.append({'msg': 'returned fewer than two rows', 'key': None})
        return {'v': out, 'n': 1, 'nt': None, 'obs': ['ok']}
    except pb.RangeError as e:
        err = e
    rows = err.incomplete_trajectory
    reasons = [pb.RangeError.MinimumVelocityReached, pb.RangeError.MaximumDropReached, pb.RangeError.MinimumAltitudeReached]
    if err.reason not in reasons:
        out.append({'msg': f'RangeError.reason {err.reason!r} is not one of the three documented reasons', 'key': None})
    # the stated reason is a TEXT the user reads: three different ones, each naming its limit
    words = ('velocity', 'drop', 'altitude')
    if len(set(reasons)) != 3 or any(w not in str(r).lower() for w, r in zip(words, reasons)) or any(w in str(r).lower() for i, r in enumerate(reasons) for j, w in enumerate(words) if i != j):
        out.append({'msg': f'the three reasons of RangeError read {reasons}: they do not name minimum velocity / maximum drop / minimum altitude one each', 'key': None})
    if not rows:
        out.append({'msg': 'RangeError carries no rows', 'key': None})
        return {'v': out, 'n': 1, 'obs': ['empty']}
    last = rows[-1]

    def stat(r):
        v, y = r.velocity >> U.FPS, r.height >> U.Foot
        return [status(v, full['cMinimumVelocity']), status(y, full['cMaximumDrop']), status(alt + y, full['cMinimumAltitude'])]

    st = stat(last)
    acceptable = []
    for reason, s in zip(reasons, st):
        if s == 'yes':
            acceptable.append(reason)
            break
        if s == 'border':
            acceptable.append(reason)
    if err.reason not in acceptable:
        out.append({'msg': f'launch {ang} deg mv {mv} alt {alt} cfg {cfg}: reason {err.reason!r} but the last row (v={last.velocity >> U.FPS:.3f} fps, '
                           f'y={last.height >> U.Foot:.3f} ft) violates [velocity,drop,altitude]={st} of limits {full}; first violated limit gives {acceptable}', 'key': None})
    for i, r in enumerate(rows[1:-1], 1):
        if 'yes' in stat(r):
            out.append({'msg': f'launch {ang} deg mv {mv} alt {alt} cfg {cfg}: row {i} of {len(rows)} already violates a limit {stat(r)} but is not the last row', 'key': None})
            break
    if err.last_distance is None or err.last_distance.raw_value != last.distance.raw_value:
        out.append({'msg': f'last_distance {err.last_distance} is not the distance of the last row {last.distance}', 'key': None})
    # prefix identical to the same shot with relaxed limits
    relaxed = {'cMinimumVelocity': full['cMinimumVelocity'] * 0.5, 'cMaximumDrop': full['cMaximumDrop'] - 300.0,
               'cMinimumAltitude': full['cMinimumAltitude'] - 300.0}
    other = {k: v for k, v in cfg.items() if k not in relaxed}
    c2 = pb.Calculator(_config={**other, **relaxed})
    try:
        rows2 = c2.fire(shot(), R, rec, extra, tstep).trajectory
    except pb.RangeError as e2:
        rows2 = e2.incomplete_trajectory
    k1 = [row_bits(r) for r in rows[:-1]]
    k2 = [row_bits(r) for r in rows2[:len(k1)]]
    if k1 != k2:
        i = next((i for i, (a, b) in enumerate(zip(k1, k2)) if a != b), min(len(k1), len(k2)))
        out.append({'msg': f'launch {ang} deg mv {mv} alt {alt} cfg {cfg} extra={extra}: row {i} before the limit differs from the same shot computed with relaxed limits '
                           f'({len(k1)} vs {len(rows2)} rows)', 'key': None})
    return {'v': out[:4], 'n': 2, 'nt': cell if len(rows) >= 3 else None, 'obs': [err.reason, min(len(rows), 3)]}


def align(cell):
    """the requested range ends inside the very step that first violates a limit (alignment classes as in C03): whatever happens there, the call
    either reaches the range or raises truthfully"""
    import py_ballisticcalc as pb
    from mc.world import step_trace, nextafter
    U = pb.Unit
    ang, mv, cfg, extra = cell
    dm = pb.DragModel(0.223, pb.TableG7, U.Grain(168), U.Inch(0.308), U.Inch(1.282))
    shot = pb.Shot(pb.Weapon(U.Inch(2), U.Inch(12)), pb.Ammo(dm, U.FPS(mv)), relative_angle=U.Degree(ang))
    full = dict(DEFAULTS)
    full.update(cfg)
    relaxed = pb.Calculator(_config={'cMinimumVelocity': 0.0, 'cMaximumDrop': -1e9, 'cMinimumAltitude': -1e9})
    try:
        tr = step_trace(relaxed, shot, 4000.0)
    except pb.RangeError as e:
        tr = e.incomplete_trajectory
    X = [r.distance >> U.Foot for r in tr]
    viol = next((i for i, r in enumerate(tr[1:], 1) if (r.velocity >> U.FPS) < full['cMinimumVelocity'] or (r.height >> U.Foot) < full['cMaximumDrop']
                 or (r.height >> U.Foot) < full['cMinimumAltitude']), None)
    if viol is None or viol < 3 or not X[viol] > X[viol - 1] > 1.0:
        return {'vac': True}
    x0, x1 = X[viol - 1], X[viol]
    out = []
    n = 0
    for R in (nextafter(x0, False), x0, nextafter(x0, True), (x0 + x1) / 2, nextafter(x1, False), x1, x0 - 0.2, x1 + 0.2):
        res = fire([ang, mv, 0.0, cfg, R / 3.0, extra, 0.0])
        n += res.get('n', 1)
        for v in res.get('v', []):
            if len(out) < 3:
                v['msg'] = f'range {R!r} ft ends in the step [{x0!r}, {x1!r}] that first violates a limit: ' + v['msg']
                out.append(v)
    # ... and a RECORD distance falls inside that step (range well beyond it): the last row must still be the point that violates the limit,
    # not a row interpolated back to the record distance
    xm = (x0 + x1) / 2
    for k in (1, 2, 5):
        if xm / k < 1.0:
            continue
        res = fire([ang, mv, 0.0, cfg, (x1 + 60.0) / 3.0, extra, 0.0, None, 0.0, xm / k])
        n += res.get('n', 1)
        for v in res.get('v', []):
            if len(out) < 3:
                v['msg'] = f'record distance {xm!r} ft ({k} x step) lies inside the step [{x0!r}, {x1!r}] that first violates a limit: ' + v['msg']
                out.append(v)
    return {'v': out, 'n': n, 'nt': cell}


def degenerate(cell):
    """finite inputs include the degenerate ones: range 0, recording step 0, both; given as quantities or bare numbers. The call must come back
    (the watchdog of this part is the oracle for "terminates") with a trajectory that reaches the range, or a range error (which rows a step of 0 produces is nobody's business here: C03 starts at steps >= one integration step)"""
    import py_ballisticcalc as pb
    U = pb.Unit
    rng, step, extra, bare = cell
    dm = pb.DragModel(0.223, pb.TableG7, U.Grain(168), U.Inch(0.308), U.Inch(1.282))
    shot = pb.Shot(pb.Weapon(U.Inch(2), U.Inch(12)), pb.Ammo(dm, U.FPS(2750)))
    calc = pb.Calculator()
    out = []
    args = [rng if bare else U.Yard(rng)]
    if step is not None:
        args.append(step if bare else U.Foot(step))
    try:
        rows = calc.fire(shot, *args, extra_data=extra).trajectory
        if not rows:
            out.append({'msg': f'fire(range {rng} yd, step {step}, extra={extra}) returned no rows', 'key': None})
        elif (rows[-1].distance >> U.Yard) < rng * (1 - 1e-9):
            out.append({'msg': f'fire(range {rng} yd, step {step}, extra={extra}) returned normally but the last row is at {rows[-1].distance >> U.Yard!r} yd', 'key': None})
    except pb.RangeError as e:
        rows = e.incomplete_trajectory
        if not rows or e.last_distance is None or e.last_distance.raw_value != rows[-1].distance.raw_value:
            out.append({'msg': f'fire(range {rng} yd, step {step}, extra={extra}): range error with {len(rows)} row(s) reports last_distance {e.last_distance!r}, '
                               f'the last row is at {rows[-1].distance if rows else None!r}', 'key': None})
    # the same request for a launch that is below the velocity limit from the start: an error whose partial trajectory may be a single row
    slow = pb.Shot(pb.Weapon(U.Inch(2), U.Inch(12)), pb.Ammo(dm, U.FPS(0)))
    try:
        calc.fire(slow, *args, extra_data=extra)
    except pb.RangeError as e:
        rows = e.incomplete_trajectory
        if not rows or e.last_distance is None or e.last_distance.raw_value != rows[-1].distance.raw_value:
            out.append({'msg': f'zero-velocity launch, fire(range {rng} yd, step {step}, extra={extra}): range error with {len(rows)} row(s) reports last_distance '
                               f'{e.last_distance!r}, the last row is at {rows[-1].distance if rows else None!r}', 'key': None})
    return {'v': out, 'n': 2, 'nt': cell}


def after_failure(cell):
    """the limits are this calculator's configuration for EVERY call - also for the calls after one that ended in an error (a zeroing out of
    reach, a shot that met a limit): the same fire on the long-used calculator and on a fresh one stop at the same row for the same reason"""
    import py_ballisticcalc as pb
    U = pb.Unit
    cfg, first = cell
    dm = pb.DragModel(0.223, pb.TableG7, U.Grain(168), U.Inch(0.308), U.Inch(1.282))

    def shot(**kw):
        return pb.Shot(pb.Weapon(U.Inch(2), U.Inch(12)), pb.Ammo(dm, U.FPS(2750)), **kw)
    calc = pb.Calculator(_config=dict(cfg))
    try:
        if first == 'zero_out_of_reach':
            calc.set_weapon_zero(shot(), U.Yard(9000))
        elif first == 'zero_steep':
            calc.set_weapon_zero(shot(look_angle=U.Degree(-40)), U.Yard(3000))
        elif first == 'fire_limit':
            calc.fire(shot(relative_angle=U.Degree(-20)), U.Yard(2000), U.Yard(100))
        elif first == 'zero_ok':
            calc.set_weapon_zero(shot(), U.Yard(100))
    except (pb.RangeError, pb.ZeroFindingError):
        pass

    def run(c):
        res = []
        for kw in ({}, {'relative_angle': U.Degree(-3)}, {'relative_angle': U.Degree(45)}):
            try:
                rows = c.fire(shot(**kw), U.Yard(3000), U.Yard(100)).trajectory
                res.append(['ok', len(rows), row_bits(rows[-1])])
            except pb.RangeError as e:
                res.append([e.reason, len(e.incomplete_trajectory), row_bits(e.incomplete_trajectory[-1])])
        return res
    got, exp = run(calc), run(pb.Calculator(_config=dict(cfg)))
    out = []
    if got != exp:
        i = next(i for i, (a, b) in enumerate(zip(got, exp)) if a != b)
        out.append({'msg': f'limits {cfg}: after {first} on this calculator, shot {i} ends with {got[i][:2]}; the same shot on a fresh calculator of that configuration ends with {exp[i][:2]}', 'key': None})
    return {'v': out, 'n': 7, 'nt': cell}


def debug_switch(cell):
    """the public debug switch (set_debug) turns logging on - nothing else: every kind of computation gives the same result, bit for bit, and ends
    the same way with it on (the log records themselves are discarded here)"""
    import logging
    import py_ballisticcalc as pb
    U = pb.Unit
    kind = cell
    dm = pb.DragModel(0.223, pb.TableG7, U.Grain(168), U.Inch(0.308), U.Inch(1.282))

    def run():
        shot = pb.Shot(pb.Weapon(U.Inch(2), U.Inch(12)), pb.Ammo(dm, U.FPS(2750)), relative_angle=U.Degree(1))
        calc = pb.Calculator(_config={'cMinimumVelocity': 2700.0}) if kind == 'limited' else pb.Calculator()
        try:
            if kind == 'zero':
                return ['ok', bits(calc.set_weapon_zero(shot, U.Foot(60)).raw_value)]
            rows = calc.fire(shot, U.Foot(90), U.Foot(30), kind == 'extra', 0.01 if kind == 'timed' else 0.0).trajectory
            return ['ok', [row_bits(r) for r in rows]]
        except pb.RangeError as e:
            return [e.reason, [row_bits(r) for r in e.incomplete_trajectory]]
    lg = logging.getLogger('py_balcalc')
    was_disabled = lg.disabled
    off = run()
    try:
        lg.disabled = True
        pb.set_debug(True)
        on = run()
    finally:
        pb.set_debug(False)
        lg.setLevel(logging.CRITICAL)
        lg.disabled = was_disabled
    out = []
    if on != off:
        out.append({'msg': f'{kind}: with set_debug(True) the computation ends with {on[0]!r} / different rows; with debug off {off[0]!r}', 'key': None})
    return {'v': out, 'n': 2, 'nt': cell}


BUDGETS = {'degenerate': 30}
PARTS = {'fire': fire, 'align': align, 'degenerate': degenerate, 'after_failure': after_failure, 'debug_switch': debug_switch}


def plan(tier):
    cells = []
    alts = [0.0, 5000.0, -1000.0] if tier == 'thorough' else [0.0, 5000.0]
    ranges = [100, 3000]
    for ang in (0.0, 45.0, 80.0, 90.0, -45.0, -90.0):
        for mv in (2750.0, 60.0, 0.0):
            for alt in alts:
                cfgs = limit_configs(alt)
                if tier == 'quick':
                    cfgs = cfgs[:10] + cfgs[-3:]
                for cfg in cfgs:
                    for rng in ranges:
                        for extra in (False, True):
                            if tier == 'quick' and rng == 100 and extra:
                                continue
                            cells.append([ang, mv, alt, cfg, rng, extra, 0.5 if abs(ang) >= 80 or mv < 100 else 0.0])
                            if tier == 'thorough' and (abs(ang) >= 80 or mv < 100):
                                cells.append([ang, mv, alt, cfg, rng, extra, 0.0])
    # wind makes ground speed and air speed differ: the velocity limit is about the (ground) speed the rows report
    for ang in (0.0, 45.0, 70.0, -45.0):
        for mv in (200.0, 60.0):
            for wind in ([10, 0], [20, 0], [20, 180], [15, 90]):
                for cfg in ({}, {'cMinimumVelocity': 100.0}, {'cMinimumVelocity': 0.0, 'cMaximumDrop': -100.0}):
                    for extra in (False, True):
                        cells.append([ang, mv, 0.0, cfg, 3000, extra, 0.5, wind])
    # inclined sight lines: the limits are about speed, height relative to the muzzle and altitude - not about the sight line
    for look in (30.0, -30.0):
        for ang in (0.0, 45.0, -45.0):
            for mv in (2750.0, 60.0):
                for cfg in ({}, {'cMaximumDrop': -10.0}, {'cMinimumAltitude': -5.0}, {'cMinimumVelocity': 500.0, 'cMaximumDrop': -10.0}):
                    for extra in (False, True):
                        cells.append([ang, mv, 0.0, cfg, 3000, extra, 0.5 if mv < 100 else 0.0, None, look])
    # the same launches (zero velocity included) with powder temperature sensitivity switched on
    for ang in (0.0, 45.0, -90.0):
        for mv in (2750.0, 60.0, 0.0):
            for alt in (0.0, 5000.0):
                for cfg in ({}, {'cMinimumVelocity': 0.0}, {'cMaximumDrop': -10.0}):
                    cells.append([ang, mv, alt, cfg, 100, False, 0.5 if mv < 100 else 0.0, None, 0.0, None, True])
    al = [[ang, mv, cfg, extra] for ang in (0.0, -1.0, 10.0, 45.0) for mv in (2750.0, 900.0)
          for cfg in ({'cMaximumDrop': -5.0}, {'cMinimumVelocity': 0.8 * mv}, {'cMinimumAltitude': -3.0}, {'cMaximumDrop': -40.0, 'cMinimumVelocity': 0.5 * mv})
          for extra in (False, True)]
    # (positive ranges many orders of magnitude below one integration step are not explored: with no step given the record filter then walks
    # range/10-sized increments up to the first integration point, ~1e9 iterations for a range of 1e-9 yd - slow, not a limit of this property's domain)
    dg = [[rng, step, extra, bare] for rng in (0.0, 50.0) for step in (None, 0.0, 10.0) for extra in (False, True) for bare in (False, True)
          if not (rng == 50.0 and step == 10.0)]
    af = [[cfg, first] for cfg in ({'cMaximumDrop': -40.0}, {'cMinimumVelocity': 1500.0}, {'cMinimumAltitude': -30.0}, {})
          for first in ('zero_out_of_reach', 'zero_steep', 'fire_limit', 'zero_ok')]
    return [('fire', cells), ('align', al), ('degenerate', dg), ('after_failure', af), ('debug_switch', ['plain', 'extra', 'timed', 'zero', 'limited'])]

"""C06 - unit conversions agree with the SI definitions and invert exactly.
Engine E1, full product: every ordered pair and triple of units of a dimension x a fixed magnitude alphabet."""
import itertools
import math

from mc.ref import units as R

PID = 'C06'
# thread bodies (defined with engine E4, mc/checks/c10_sched.py) that exercise this property's code; explored after the parts below
SCHED_SETS = [('units||units', 'line')]
LEVEL = 'exploration'
TECHNIQUE = 'bounded exhaustive enumeration (full product of unit pairs/triples x magnitude alphabet) against an exact-rational SI table'
RULE = ('cells = all ordered pairs and all ordered triples of units within each of the 7 dimensions; each cell runs every '
        'magnitude of the alphabet that is admissible for it (angles within one turn, tangent units within +-60 deg); '
        'non-trivial = a pair/triple of distinct units with at least one non-zero magnitude evaluated')
ASSUMPTIONS = ['the SI definitions in mc/ref/units.py (exact inch, lb, grain, nmi, g0, conventional mmHg)',
               'magnitudes outside the alphabet are not explored',
               'ulp bounds: round trip and A>B>C vs A>C within 8 ulp of the largest intermediate']

# incl. exactly one full turn in every angular unit (360 deg, 21600 MOA, 6400 mil, 6000 thousandths, 12 o'clock, 2 pi rad, 2000 pi mrad)
MAGS = [0, 1, -1, 0.1, -0.1, 3, 7.5, 59, 273.15, -40, 1e-9, 1e-6, 2.5e3, 12345.678, 1e6, 360, 21600, 6400, 6000, 12, 2 * math.pi, 2000 * math.pi]
MAGS_THOROUGH = MAGS + [0.5, 2, 10, 100, 1e3, 1e-3, -273.15, 459.67, 6400, 21600, 1e9, 1e-12, -1e6, 0.3333333333333333]
EPS = 2.0 ** -52
TWO_PI = 2 * math.pi


def _unit(name):
    from py_ballisticcalc.unit import Unit
    return Unit[name]


def admissible(dim, us, m):
    if dim != 'angular':
        return True
    r = R.to_rad(us[0], m)
    if any(u in R.TAN for u in us):
        return abs(r) <= math.radians(60)
    return abs(r) <= TWO_PI * (1 + 4 * EPS)       # one full turn included


def temp_scale(u, m):
    k = R.to_kelvin(u, m)
    return max(abs(float(R.from_kelvin(t, k))) for t in R.TEMP)


def pair(cell):
    un, vn, mags = cell
    dim = R.DIM_OF[un]
    u, v = _unit(un), _unit(vn)
    out = []
    n = 0
    worst_rel = 0.0
    worst_ulp = 0.0
    for m in mags:
        if not admissible(dim, (un, vn), m):
            continue
        n += 1
        q = u(m)
        got = q >> v
        exp, scale = R.convert(un, vn, m)
        err = abs(got - exp)
        if scale > 0:
            worst_rel = max(worst_rel, err / scale)
        if not err <= 1e-6 * scale + 1e-300:
            out.append({'msg': f'{m} {un} -> {vn}: got {got!r}, SI definition gives {exp!r} (rel err {err / scale if scale else err:.3g} > 1e-6)',
                        'key': None, 'magnitude': m})
            continue
        # the same conversion by re-displaying the object after it has been read once (read, convert in place, read)
        q2 = u(m)
        first = q2.unit_value
        str(q2)
        q2 << v
        if q2.unit_value != got or first != (u(m) >> u):
            out.append({'msg': f'{m} {un}: read as {first!r} {un}, re-displayed in {vn}, then reads {q2.unit_value!r} instead of {got!r}', 'key': None, 'magnitude': m})
        # round trip u -> v -> u
        back = v(got) >> u
        inter = max(abs(m), abs(got), abs(q.raw_value), abs(v(got).raw_value), abs(back))
        if dim == 'temperature':
            inter = max(inter, temp_scale(un, m))
        ulps = abs(back - m) / (EPS * inter) if inter else abs(back - m)
        worst_ulp = max(worst_ulp, ulps)
        if ulps > 8:
            out.append({'msg': f'round trip {m} {un} -> {vn} -> {un} returned {back!r} ({ulps:.1f} ulp of {inter})',
                        'key': None, 'magnitude': m})
    return {'v': out, 'n': n, 'nt': [un, vn] if un != vn and n > 1 else None,
            'extra': {'max_rel_err': worst_rel, 'max_roundtrip_ulp': worst_ulp}}


def triple(cell):
    an, bn, cn, mags = cell
    dim = R.DIM_OF[an]
    a, b, c = _unit(an), _unit(bn), _unit(cn)
    out = []
    n = 0
    worst = 0.0
    for m in mags:
        if not admissible(dim, (an, bn, cn), m):
            continue
        n += 1
        y = a(m) >> b
        z1 = b(y) >> c
        z2 = a(m) >> c
        inter = max(abs(m), abs(y), abs(z1), abs(z2), abs(a(m).raw_value))
        if dim == 'temperature':
            inter = max(inter, temp_scale(an, m))
        # different units have different magnitudes: compare relative to the final scale, the affine
        # temperature maps relative to the absolute temperature
        scale = max(abs(z1), abs(z2)) if dim != 'temperature' else inter
        ulps = abs(z1 - z2) / (EPS * scale) if scale else abs(z1 - z2) / 1e-300
        worst = max(worst, ulps)
        if ulps > 8:
            out.append({'msg': f'{m} {an} -> {bn} -> {cn} = {z1!r} but {an} -> {cn} = {z2!r} ({ulps:.1f} ulp)',
                        'key': None, 'magnitude': m})
    return {'v': out, 'n': n, 'nt': [an, bn, cn] if len({an, bn, cn}) == 3 and n > 1 else None,
            'extra': {'max_triple_ulp': worst}}


def members(cell):
    """The enum under test has exactly the 41 units of the statement, grouped in the 7 dimensions."""
    from py_ballisticcalc.unit import Unit
    names = sorted(u.name for u in Unit)
    ref = sorted(R.DIM_OF)
    out = []
    if names != ref:
        out.append({'msg': f'Unit members differ from the 41 units of the statement: only in code {sorted(set(names) - set(ref))}, '
                           f'only in reference {sorted(set(ref) - set(names))}', 'key': None})
    return {'v': out, 'nt': 'members', 'n': len(names)}


PARTS = {'pair': pair, 'triple': triple, 'members': members}


def plan(tier):
    mags = MAGS if tier == 'quick' else MAGS_THOROUGH
    pairs, triples = [], []
    for dim, us in R.DIMENSIONS.items():
        for u, v in itertools.product(us, us):
            pairs.append([u, v, mags])
        for t in itertools.product(us, us, us):
            triples.append(list(t) + [mags])
    return [('members', [0]), ('pair', pairs), ('triple', triples)]

"""C05 - each row's derived columns are the documented functions of its state.
Engine E1, full product; every row of every result is recomputed from its own primitives."""
import itertools
import math

from mc.world import make_calc, step_trace

PID = 'C05'
# thread bodies (defined with engine E4, mc/checks/c10_sched.py) that exercise this property's code; explored after the parts below
SCHED_SETS = [('fire||fire(G1)', 'call')]
LEVEL = 'exploration'
ENGINE = 'E1'
TECHNIQUE = 'bounded exhaustive enumeration (full product look x atmosphere x twist x bullet data x result mode), every row of every result recomputed from its primitives with independent Miller/Litz and lapse-rate formulas'
RULE = ('cells = look {0,+-20,45 deg} x atmosphere {ICAO, ICAO 5000 ft, 1000 ft/27 inHg/100 F/50 %, vacuum at 5000 ft/-10 C} x twist {12,-8,0 in} x bullet data '
        '{weight+diameter+length, no length, no weight, no diameter} x mode {plain 50-yd rows, extra rows, rows of an incomplete trajectory, '
        'full step trace}; every row is checked; reuse cells = every ordered pair of 8 (atmosphere, mv, bullet data, twist) variants fired in a row with one calculator; non-trivial = cell with look != 0 or non-ICAO atmosphere or twist != 0 (distinct cells counted)')
ASSUMPTIONS = ['Mach band: variation of the speed of sound over +-(30 ft + one step) (documented shortcut) + 1e-4',
               'energy constant accepted within 2e-4 (450400 vs w/(2 g 7000))', 'with no bullet weight either no drift or the Litz formula with Sg=0 is accepted',
               'angle of interpolated rows is bracketed by the neighbouring integration points']

LAPSE_K_PER_FT = 0.0019812
A_CONST = 49.0223  # fps per sqrt(Rankine); ISA: sqrt(1.4*287.05287*5/9)/0.3048 = 49.0221
ATMOS = {'icao': 'icao', 'icao5k': 'icao5k', 'hot': [1000.0, 27.0, 100.0, 50, 20.0], 'vac5k': 'vac5k'}     # hot: powder temperature 20 F given, air 100 F
BULLETS = {'full': (168.0, 0.308, 1.282), 'nolength': (168.0, 0.308, 0.0), 'noweight': (0.0, 0.308, 1.2), 'nodiameter': (168.0, 0.0, 1.282),
           'multi': (168.0, 0.308, 1.282)}      # multi: the same bullet described by a multi-BC drag model


def miller(tw, w, d, l, mv, t_f, p_inhg):
    if not (tw and d and l):
        return 0.0
    t = abs(tw) / d
    L = l / d
    s = 30 * w / (t * t * d ** 3 * L * (1 + L * L))
    return s * (mv / 2800) ** (1 / 3) * ((t_f + 460) / (59 + 460)) * (29.92 / p_inhg)


def _shot(look, atmo, tw, bullet, mv=2750.0, extra=None):
    import py_ballisticcalc as pb
    from mc.world import make_atmo
    U = pb.Unit
    w, d, l = BULLETS[bullet]
    dm = pb.DragModel(0.223, pb.TableG7, U.Grain(w), U.Inch(d), U.Inch(l))
    if bullet == 'multi':
        dm = pb.DragModelMultiBC([pb.BCPoint(0.223, Mach=2.0), pb.BCPoint(0.21, Mach=1.0)], pb.TableG7, U.Grain(w), U.Inch(d), U.Inch(l))
    at = pb.Vacuum(U.Foot(5000), U.Celsius(-10)) if atmo == 'vac5k' else make_atmo(ATMOS[atmo])
    ex = extra or {}
    winds = [pb.Wind(U.MPH(12), U.Degree(70), U.Yard(200)), pb.Wind(U.MPH(6), U.Degree(250))] if ex.get('wind') else None
    if ex.get('back'):
        # rows BEHIND the muzzle: lofted into a 60 mph head wind that carries the projectile back over the shooter (87 deg), or fired backwards (100 deg)
        winds = [pb.Wind(U.MPH(60), U.Degree(180))] if ex['back'] == 'blown' else None
        return pb.Shot(pb.Weapon(U.Inch(2), U.Inch(tw), U.Degree(2)), pb.Ammo(dm, U.FPS(200.0)), look_angle=U.Degree(look),
                       relative_angle=U.Degree(85.0 if ex['back'] == 'blown' else 98.0), atmo=at, winds=winds)
    return pb.Shot(pb.Weapon(U.Inch(2), U.Inch(tw), U.Degree(2)), pb.Ammo(dm, U.FPS(mv)), look_angle=U.Degree(look), cant_angle=U.Degree(ex.get('cant', 0.0)),
                   relative_angle=U.MOA(ex.get('rel', 0.0)), atmo=at, winds=winds)


def _rows(calc, shot, mode):
    import py_ballisticcalc as pb
    U = pb.Unit
    if mode == 'plain':
        return calc.fire(shot, U.Yard(800), U.Yard(50)).trajectory
    if mode == 'extra':
        return calc.fire(shot, U.Yard(800), U.Yard(50), True).trajectory
    if mode == 'incomplete':
        c2 = make_calc({'cMinimumVelocity': 2000.0})
        try:
            c2.fire(shot, U.Yard(800), U.Yard(50), True)
        except pb.RangeError as e:
            return e.incomplete_trajectory
        return None
    if mode == 'short':
        # a recording step longer than the range: the muzzle row and one closing row (built by a branch of its own)
        return calc.fire(shot, U.Yard(50), U.Yard(100)).trajectory
    if mode == 'trace':
        return step_trace(calc, shot, 300.0, True)
    if mode == 'back':
        c2 = make_calc({'cMinimumVelocity': 0.0, 'cMinimumAltitude': -1e9, 'cMaximumDrop': -60.0})
        try:
            return step_trace(c2, shot, 300.0, True)
        except pb.RangeError as e:
            return e.incomplete_trajectory
    raise ValueError(mode)


def rows(cell):
    import py_ballisticcalc as pb
    U = pb.Unit
    look, atmo, tw, bullet, mode = cell[:5]
    ex = cell[5] if len(cell) > 5 else None
    if ex and ex.get('prefs'):
        # the columns are physical quantities: which units they are DISPLAYED in (here: joule, kilogram, metres, m/s, mil) changes none of them
        for slot, un in (('energy', 'Joule'), ('ogw', 'Kilogram'), ('distance', 'Meter'), ('velocity', 'MPS'), ('drop', 'Centimeter'), ('adjustment', 'Mil'), ('angular', 'Mil')):
            setattr(pb.PreferredUnits, slot, pb.Unit[un])
    calc = make_calc()
    shot = _shot(look, atmo, tw, bullet, extra=ex)
    shot0 = _shot(look, atmo, 0.0, bullet, extra=ex)
    R = _rows(calc, shot, mode)
    R0 = _rows(calc, shot0, mode)
    if R is None or R0 is None:
        return {'vac': True}
    out = []

    def bad(msg):
        if len(out) < 4:
            out.append({'msg': f'look {look} atmo {atmo} twist {tw} bullet {bullet} mode {mode}: {msg}', 'key': None})

    if len(R) != len(R0) or any(a.time != b.time for a, b in zip(R, R0)):
        bad('twist changes the rows of the trajectory (count or times), so windage is not lateral position + spin drift')
        return {'v': out, 'n': len(R)}
    w, d, l = BULLETS[bullet]
    lar = math.radians(look)
    at = shot.atmo
    alt0 = at.altitude >> U.Foot
    t0_k = at.temperature >> U.Kelvin
    vacuum = (at.pressure >> U.InHg) == 0
    asked = {'vac5k': (5000.0, -10.0), 'hot': (1000.0, (100.0 - 32) / 1.8), 'icao': (0.0, 15.0)}.get(atmo)
    if asked and (abs(alt0 - asked[0]) > 1e-6 or abs((at.temperature >> U.Celsius) - asked[1]) > 1e-6):
        bad(f'the atmosphere was built for {asked[0]} ft and {asked[1]:.2f} C but says {alt0!r} ft and {at.temperature >> U.Celsius!r} C (every row\'s Mach hangs on it)')
    S = 0.0 if vacuum else miller(tw, w, d, l, 200.0 if (ex or {}).get('back') else 2750.0, at.temperature >> U.Fahrenheit, at.pressure >> U.InHg)

    def a_ref(alt):
        tk = t0_k - LAPSE_K_PER_FT * (alt - alt0)
        return A_CONST * math.sqrt(tk * 9 / 5)

    trace = step_trace(calc, shot0, (max(r.distance >> U.Foot for r in R) + 1.0), True) if mode not in ('trace', 'back') else R0
    tx = [r.distance >> U.Foot for r in trace]
    import bisect
    for i, (r, r0) in enumerate(zip(R, R0)):
        x, y, v, t = r.distance >> U.Foot, r.height >> U.Foot, r.velocity >> U.FPS, r.time
        wd = r.windage >> U.Foot
        # Mach
        if v > 0:
            a_row = v / r.mach
            a0 = a_ref(alt0 + y)
            band = abs(a_ref(alt0 + y + 31.0) - a0) / a0 + 1e-4
            if abs(a_row - a0) / a0 > band:
                bad(f'row {i} at {x:.2f} ft: speed/Mach = {a_row!r} fps but the speed of sound at altitude {alt0 + y:.1f} ft is {a0!r} (band {band:.2e})')
        # energy, OGW
        e_ref = w * v * v / 450400
        if abs((r.energy >> U.FootPound) - e_ref) > 2e-4 * max(1e-9, e_ref):
            bad(f'row {i}: energy {r.energy >> U.FootPound!r} ft-lb, kinetic energy of {w} gr at {v} fps is {e_ref!r}')
        o_ref = w * w * v ** 3 * 1.5e-12
        if abs((r.ogw >> U.Pound) - o_ref) > 1e-9 * max(1e-12, o_ref):
            bad(f'row {i}: optimal game weight {r.ogw >> U.Pound!r}, formula gives {o_ref!r}')
        # sight-line geometry
        td_ref = (y - x * math.tan(lar)) * math.cos(lar)
        if abs((r.target_drop >> U.Foot) - td_ref) > 1e-12 * max(1.0, abs(td_ref)) + 1e-12:
            bad(f'row {i}: target_drop {r.target_drop >> U.Foot!r}, geometry gives {td_ref!r}')
        ld_ref = x / math.cos(lar)
        if abs((r.look_distance >> U.Foot) - ld_ref) > 1e-12 * max(1.0, abs(ld_ref)):
            bad(f'row {i}: look_distance {r.look_distance >> U.Foot!r}, geometry gives {ld_ref!r}')
        if x != 0:      # also behind the muzzle (x < 0): the geometry of (distance, height, look angle) is the same formula
            da_ref = math.atan(y / x) - lar
            wa_ref = math.atan(wd / x)
            if abs((r.drop_adj >> U.Radian) - da_ref) > 1e-12:
                bad(f'row {i}: drop_adj {r.drop_adj >> U.Radian!r}, geometry gives {da_ref!r}')
            if abs((r.windage_adj >> U.Radian) - wa_ref) > 1e-12:
                bad(f'row {i}: windage_adj {r.windage_adj >> U.Radian!r}, atan(windage/distance) = {wa_ref!r}')
        elif x == 0:
            if (r.drop_adj >> U.Radian) != 0 or (r.windage_adj >> U.Radian) != 0:
                bad(f'muzzle row: adjustments ({r.drop_adj >> U.Radian!r}, {r.windage_adj >> U.Radian!r}) are not zero')
        # spin drift
        sd = wd - (r0.windage >> U.Foot)
        exp = (1 if tw > 0 else -1) * 1.25 * (S + 1.2) * t ** 1.83 / 12 if (tw and d and l) else 0.0
        ok = abs(sd - exp) <= 1e-9 * max(1.0, abs(exp)) + 1e-12
        if (bullet == 'noweight' or vacuum) and abs(sd) <= 1e-12:
            ok = True      # no weight / no air: the stability formula is undefined, no drift is accepted
        if not ok:
            bad(f'row {i} (t={t:.4f} s): windage minus windage without twist = {sd!r} ft, Litz/Miller give {exp!r} ft (Sg={S:.4f})')
        # angle = direction of the velocity (from the step trace: position update is v_new * dt)
        k = bisect.bisect_left(tx, x - 1e-9 * max(1.0, x)) if mode != 'back' else i      # back: the rows ARE the step trace (x is not monotone there)
        ang = r.angle >> U.Radian
        if mode == 'back':
            if 1 <= i < len(trace) - 1:       # (the terminal row of an incomplete trajectory is built outside the filter: excluded)
                dx, dy = tx[i] - tx[i - 1], (trace[i].height >> U.Foot) - (trace[i - 1].height >> U.Foot)
                want = math.atan2(dy, dx)
                dev = abs((ang - want + math.pi) % (2 * math.pi) - math.pi)
                if dev > 1e-6:
                    bad(f'row {i} at x={x:.3f} ft (moving {"up" if dx < 0 else "down"}-range): angle {ang!r} rad, direction of motion in the step trace {want!r}')
        elif 1 <= k < len(trace):
            def seg(j):
                return math.atan2((trace[j].height >> U.Foot) - (trace[j - 1].height >> U.Foot), tx[j] - tx[j - 1])
            exact = abs(tx[k] - x) <= 1e-9 * max(1.0, x)
            cands = [seg(k)] + ([seg(k - 1)] if k >= 2 else []) + ([seg(k + 1)] if k + 1 < len(trace) else [])
            lo, hi = min(cands) - 1e-7, max(cands) + 1e-7
            if exact and k < len(trace):
                if abs(ang - seg(k)) > 1e-7 and not (lo <= ang <= hi):
                    bad(f'row {i} at {x:.3f} ft: angle {ang!r} rad, direction of motion in the step trace {seg(k)!r}')
            elif not (lo <= ang <= hi):
                bad(f'row {i} at {x:.3f} ft: angle {ang!r} rad outside the directions of the neighbouring steps [{lo!r},{hi!r}]')
    # the numeric view of a row (in_def_units, which also feeds the data frame) shows the same columns, read in the preferred units
    P = pb.PreferredUnits
    for i in sorted({0, 1, len(R) // 2, len(R) - 1}):
        if 0 <= i < len(R):
            r = R[i]
            want = (r.time, r.distance >> P.distance, r.velocity >> P.velocity, r.mach, r.height >> P.drop, r.target_drop >> P.drop, r.drop_adj >> P.adjustment,
                    r.windage >> P.drop, r.windage_adj >> P.adjustment, r.look_distance >> P.distance, r.angle >> P.angular, r.density_factor, r.drag,
                    r.energy >> P.energy, r.ogw >> P.ogw, r.flag)
            # ... and the formatted view prints those numbers (rounded to the digits it shows)
            try:
                cells_ = r.formatted()
                for j in (0, 1, 2, 3, 4, 5, 6, 7, 8, 9, 10, 13, 14):
                    num = cells_[j].split()[0]
                    dec = len(num.split('.')[1]) if '.' in num and 'e' not in num.lower() else 0
                    if 'e' in num.lower():
                        continue
                    if abs(float(num) - want[j]) > 0.5000001 * 10 ** -dec + 1e-9 * abs(want[j]):
                        bad(f'row {i}: formatted() column {j} prints {cells_[j]!r}, the row says {want[j]!r}')
                        break
            except (ValueError, IndexError) as e_:
                bad(f'row {i}: formatted() could not be read back: {e_}')
            if tuple(r.in_def_units()) != want:
                j = next((k for k, (a, b) in enumerate(zip(r.in_def_units(), want)) if a != b), None)
                bad(f'row {i}: in_def_units() column {j} is {list(r.in_def_units())[j] if j is not None else None!r}, the row says {want[j] if j is not None else None!r}')
    nontrivial = look != 0 or atmo != 'icao' or tw != 0
    return {'v': out, 'n': len(R), 'nt': cell if nontrivial else None, 'obs': [mode, bullet, tw != 0], 'extra': {'rows_checked': len(R)}}


def reuse(cell):
    """one long-lived calculator used for two shots in a row that share bullet and twist but differ in air / muzzle velocity / bullet data:
    the second result must still follow the formulas (nothing derived per shot may be carried over)"""
    import py_ballisticcalc as pb
    U = pb.Unit
    (atmo1, mv1, bullet1, tw1), (atmo2, mv2, bullet2, tw2) = cell[:2]
    first_use = cell[2] if len(cell) > 2 else 'fire'
    calc = make_calc()
    first = _shot(0.0, atmo1, tw1, bullet1, mv1)
    try:
        if first_use == 'fire':
            calc.fire(first, U.Yard(300), U.Yard(100))
        else:
            # the first use is a zeroing - one that succeeds, or one that fails inside the search (target far beyond reach)
            calc.set_weapon_zero(first, U.Yard(100 if first_use == 'zero_ok' else 6000))
    except (pb.RangeError, pb.ZeroFindingError):
        pass
    second = _shot(0.0, atmo2, tw2, bullet2, mv2)
    second0 = _shot(0.0, atmo2, 0.0, bullet2, mv2)
    R = calc.fire(second, U.Yard(600), U.Yard(100)).trajectory
    R0 = make_calc().fire(second0, U.Yard(600), U.Yard(100)).trajectory
    out = []
    w, d, l = BULLETS[bullet2]
    at = second.atmo
    vacuum = (at.pressure >> U.InHg) == 0
    S = 0.0 if vacuum else miller(tw2, w, d, l, mv2, at.temperature >> U.Fahrenheit, at.pressure >> U.InHg)
    for i, (r, r0) in enumerate(zip(R, R0)):
        sd = (r.windage >> U.Foot) - (r0.windage >> U.Foot)
        exp = (1 if tw2 > 0 else -1) * 1.25 * (S + 1.2) * r.time ** 1.83 / 12 if (tw2 and d and l) else 0.0
        ok = abs(sd - exp) <= 1e-9 * max(1.0, abs(exp)) + 1e-12
        if (bullet2 == 'noweight' or vacuum) and abs(sd) <= 1e-12:
            ok = True
        if not ok:
            out.append({'msg': f'calculator first used ({first_use}) for {cell[0]} then for {cell[1]}: row {i} spin drift {sd!r} ft, Litz/Miller for the SECOND shot give {exp!r} ft (Sg={S:.4f})', 'key': None})
            break
        e_ref = w * (r.velocity >> U.FPS) ** 2 / 450400
        if abs((r.energy >> U.FootPound) - e_ref) > 2e-4 * max(1e-9, e_ref):
            out.append({'msg': f'calculator first used ({first_use}) for {cell[0]} then for {cell[1]}: row {i} energy {r.energy >> U.FootPound!r}, weight of the SECOND bullet gives {e_ref!r}', 'key': None})
            break
    return {'v': out, 'n': 2, 'nt': cell if cell[0] != cell[1] else None, 'obs': [cell[0][2], cell[1][2]]}


def powder(cell):
    """the velocity correction of the Miller stability uses the velocity the shot is actually launched with (powder temperature sensitivity)"""
    import py_ballisticcalc as pb
    from mc.world import make_atmo
    U = pb.Unit
    mod, powder_c, tw, atmo = cell
    w, d, l = BULLETS['full']
    dm = pb.DragModel(0.223, pb.TableG7, U.Grain(w), U.Inch(d), U.Inch(l))

    def shot(twist):
        at = make_atmo(ATMOS[atmo])
        at = pb.Atmo(at.altitude, at.pressure, at.temperature, at.humidity * 100, U.Celsius(powder_c))
        ammo = pb.Ammo(dm, U.FPS(2750), U.Celsius(15), mod, True)
        return pb.Shot(pb.Weapon(U.Inch(2), U.Inch(twist), U.Degree(0.2)), ammo, atmo=at)
    calc = make_calc()
    R = calc.fire(shot(tw), U.Yard(600), U.Yard(100)).trajectory
    R0 = calc.fire(shot(0.0), U.Yard(600), U.Yard(100)).trajectory
    launch = R[0].velocity >> U.FPS
    at = shot(tw).atmo
    S = miller(tw, w, d, l, launch, at.temperature >> U.Fahrenheit, at.pressure >> U.InHg)
    out = []
    for i, (r, r0) in enumerate(zip(R, R0)):
        sd = (r.windage >> U.Foot) - (r0.windage >> U.Foot)
        exp = (1 if tw > 0 else -1) * 1.25 * (S + 1.2) * r.time ** 1.83 / 12
        if abs(sd - exp) > 1e-9 * max(1.0, abs(exp)) + 1e-12:
            out.append({'msg': f'powder at {powder_c} C, modifier {mod}, launch speed {launch:.2f} fps (stated 2750): row {i} spin drift {sd!r} ft, Litz/Miller with the LAUNCH speed give {exp!r} ft (Sg={S:.4f})', 'key': None})
            break
    return {'v': out, 'n': 2, 'nt': cell if abs(launch - 2750) > 1 else None}


PARTS = {'rows': rows, 'reuse': reuse, 'powder': powder}


def plan(tier):
    looks = [0.0, 20.0, -20.0, 45.0]
    modes = ['plain', 'extra', 'incomplete', 'trace', 'short']
    cells = [list(c) for c in itertools.product(looks, list(ATMOS), [12.0, -8.0, 0.0], list(BULLETS), modes)]
    if tier == 'quick':
        cells = [c for c in cells if not (c[4] == 'trace' and (c[3] != 'full' or c[0] in (-20.0,)))]
    variants = [['icao', 2750.0, 'full', 12.0], ['hot', 2750.0, 'full', 12.0], ['icao5k', 2200.0, 'full', 12.0], ['icao', 2750.0, 'nolength', 12.0],
                ['icao', 2750.0, 'noweight', 12.0], ['icao', 2750.0, 'full', -8.0], ['icao', 2750.0, 'full', 0.0], ['vac5k', 2750.0, 'full', 12.0]]
    ru = [[a, b] for a in variants for b in variants] + [[a, b, fu] for a in variants[::3] for b in variants for fu in ('zero_ok', 'zero_fail')]
    cells += [[lk, a, tw, 'full', mode, ex] for lk in (0.0, 20.0) for a in ('icao', 'hot') for tw in (12.0, -8.0) for mode in ('plain', 'extra', 'incomplete')
              for ex in ({'wind': True}, {'cant': 30.0, 'rel': 10.0}, {'wind': True, 'cant': -20.0})]
    cells += [[0.0, a, tw, 'full', 'back', {'back': b}] for a in ('icao', 'hot') for tw in (12.0, 0.0) for b in ('blown', 'reverse')]
    cells += [[lk, a, 12.0, 'full', mode, {'prefs': True}] for lk in (0.0, 20.0) for a in ('icao', 'hot') for mode in ('plain', 'extra', 'incomplete')]
    pw = [[m, t, tw, a] for m in (0.02, -0.015, 0.0) for t in (35.0, -10.0, 15.0) for tw in (12.0, -8.0) for a in ('icao', 'hot')]
    return [('rows', cells), ('reuse', ru), ('powder', pw)]

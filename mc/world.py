"""Builders that turn JSON cells into fresh real library objects, and public-API observation seams."""
import math

from mc.core import bits, HarnessError

CUSTOM3 = [{'Mach': 0.0, 'CD': 0.3}, {'Mach': 1.0, 'CD': 0.5}, {'Mach': 3.0, 'CD': 0.25}]

BASE = dict(dm='G7', bc=.223, mv=2750.0, sh=2.0, look=0.0, zero=5 / 60, rel=0.0, cant=0.0, atmo='icao', wind='none',
            twist=0.0, weight=168.0, diameter=0.308, length=1.282)

WINDS = {
    'none': [],
    'finite': [[15, 90, 100]],        # one reading that ends at 100 yd: calm beyond
    'cross': [[10, 90, None]],
    'cross15': [[15, 90, None]],
    'head': [[20, 180, None]],
    'tail': [[20, 0, None]],
    'tail60': [[60, 0, None]],
    'seg3': [[30, 200, 150], [20, 90, 60], [10, 0, 400]],   # given out of order, boundaries inside the range
    'q60': [[60, 135, None]],
    'quarter': [[5, -45, None]],
    'calm_wind': [[0, 0, 100], [10, 90, None]],                       # a calm stretch is a segment too
    'wind_calm_wind': [[10, 90, 50], [0, 45, 120], [15, 270, None]],
    # boundaries given in different length units whose NUMBERS order differently from the lengths: 200 yd = 182.9 m < 190 m
    'mixed_units': [[10, 90, [190, 'Meter']], [15, 270, [200, 'Yard']], [5, 0, [1000, 'Foot']]],
}


def table(name):
    import py_ballisticcalc.drag_tables as dt
    if name == 'custom3':
        return [dict(p) for p in CUSTOM3]
    return getattr(dt, 'Table' + name)


def make_dm(cell):
    from py_ballisticcalc import DragModel, DragModelMultiBC, BCPoint, Unit
    w, d, ln = cell.get('weight', 0), cell.get('diameter', 0), cell.get('length', 0)
    if cell['dm'] == 'multi':
        return DragModelMultiBC([BCPoint(cell['bc'], Mach=2.0), BCPoint(cell['bc'] * 0.9, Mach=1.0)], table('G7'),
                                Unit.Grain(w), Unit.Inch(d), Unit.Inch(ln))
    return DragModel(cell['bc'], table(cell['dm']), Unit.Grain(w), Unit.Inch(d), Unit.Inch(ln))


def make_atmo(name):
    from py_ballisticcalc import Atmo, Vacuum, Unit
    if isinstance(name, (list, tuple)):      # [alt_ft, inHg, degF, humidity(, powder degF)]
        a, p, t, h = name[:4]
        if len(name) > 4:
            return Atmo(Unit.Foot(a), Unit.InHg(p), Unit.Fahrenheit(t), h, Unit.Fahrenheit(name[4]))
        return Atmo(Unit.Foot(a), Unit.InHg(p), Unit.Fahrenheit(t), h)
    if name == 'icao':
        return Atmo.icao()
    if name == 'icao5k':
        return Atmo.icao(Unit.Foot(5000))
    if name == 'hot':
        return Atmo(Unit.Foot(1500), Unit.InHg(28), Unit.Fahrenheit(95), 60)
    if name == 'vac':
        return Vacuum()
    raise HarnessError(f'unknown atmo {name}')


def make_winds(spec):
    """spec: name in WINDS or list of [mph, deg_from, until_yd or None]"""
    from py_ballisticcalc import Wind, Unit
    if isinstance(spec, str):
        spec = WINDS[spec]
    out = []
    for mph, deg, until in spec:
        if until is None:
            out.append(Wind(Unit.MPH(mph), Unit.Degree(deg)))
        elif isinstance(until, (list, tuple)):
            out.append(Wind(Unit.MPH(mph), Unit.Degree(deg), Unit[until[1]](until[0])))
        else:
            out.append(Wind(Unit.MPH(mph), Unit.Degree(deg), Unit.Yard(until)))
    return out


def make_shot(cell):
    from py_ballisticcalc import Shot, Weapon, Ammo, Unit
    c = dict(BASE)
    c.update(cell)
    weapon = Weapon(Unit.Inch(c['sh']), Unit.Inch(c['twist']), Unit.Degree(c['zero']))
    ammo = Ammo(make_dm(c), Unit.FPS(c['mv']))
    return Shot(weapon, ammo, Unit.Degree(c['look']), Unit.Degree(c['rel']), Unit.Degree(c['cant']),
                make_atmo(c['atmo']), make_winds(c['wind']))


def make_calc(cfg=None):
    from py_ballisticcalc import Calculator
    return Calculator(_config=dict(cfg)) if cfg else Calculator()


def step_trace(calc, shot, range_ft, extra=False):
    """Every integration point of a shot through the PUBLIC api: a record step far beyond the range and a
    tiny time step make the filter emit each point it is offered (DESIGN section 2)."""
    from py_ballisticcalc import Unit
    return calc.fire(shot, Unit.Foot(range_ft), Unit.Foot(max(range_ft, 1.0) * 10), extra, 1e-12).trajectory


def row_prims(r):
    """Raw (feet / fps / rad / s) primitives of a row."""
    from py_ballisticcalc import Unit
    return {'t': r.time, 'x': r.distance >> Unit.Foot, 'y': r.height >> Unit.Foot, 'z': r.windage >> Unit.Foot,
            'v': r.velocity >> Unit.FPS, 'mach': r.mach, 'flag': int(r.flag)}


def row_bits(r):
    """Bit patterns of every physical field of a row (for bit-for-bit comparisons)."""
    return [bits(r.time), bits(r.distance.raw_value), bits(r.velocity.raw_value), bits(r.mach), bits(r.height.raw_value),
            bits(r.target_drop.raw_value), bits(r.drop_adj.raw_value), bits(r.windage.raw_value),
            bits(r.windage_adj.raw_value), bits(r.look_distance.raw_value), bits(r.angle.raw_value),
            bits(r.density_factor), bits(r.drag), bits(r.energy.raw_value), bits(r.ogw.raw_value), int(r.flag)]


def traj_bits(rows):
    return [row_bits(r) for r in rows]


def nextafter(x, up):
    return math.nextafter(x, math.inf if up else -math.inf)

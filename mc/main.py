"""CLI: ./check <ID> [quick|thorough]   |   ./check --replay <file>   |   ./check --all [tier]"""
import os
import sys

sys.path.insert(0, os.path.dirname(os.path.dirname(os.path.abspath(__file__))))
from mc import core  # noqa: E402


def main(argv):
    import signal
    signal.signal(signal.SIGPIPE, signal.SIG_DFL)      # `./check ... | head` must not end in a traceback
    if not argv:
        print(__doc__)
        return 2
    if argv[0] == '--replay':
        return core.replay(argv[1])
    pid = argv[0].upper()
    tier = argv[1] if len(argv) > 1 else os.environ.get('VERIF_TIER', 'quick')
    if tier not in ('quick', 'thorough'):
        print('tier must be quick or thorough')
        return 2
    seed = int(os.environ.get('VERIF_SEED', '0') or 0)
    return core.run_check(pid, tier, seed)


if __name__ == '__main__':
    sys.exit(main(sys.argv[1:]))

"""Independent reference for the 3-DoF point-mass model (C01, C12): RK4 in time with event location at wind-segment
boundaries and at every requested distance; closed-form parabola for a vacuum.

acceleration = g - rho(alt0+y) * |v-w| * D(|v-w|/a) * (v-w)
with rho, a from Atmo.get_density_factor_and_mach_for_altitude and D from TrajectoryCalc.drag_by_mach used as black-box
coefficient functions, exactly as the property prescribes."""
import math

from mc.core import HarnessError

G = -32.17405


def initial_state(spec):
    """spec: angles in degrees, sh in inches, mv in fps -- computed from the numbers, not from Shot properties"""
    look, zero, rel, cant = (math.radians(spec[k]) for k in ('look', 'zero', 'rel', 'cant'))
    e = look + math.cos(cant) * (zero + rel)
    a = math.sin(cant) * (zero + rel)
    sh = spec['sh'] / 12.0
    mv = spec['mv']
    return [0.0, -math.cos(cant) * sh, -math.sin(cant) * sh,
            mv * math.cos(e) * math.cos(a), mv * math.sin(e), mv * math.cos(e) * math.sin(a)]


def coefficient_functions(shot, calc):
    try:
        tc = calc._calc
        tc._init_trajectory(shot)
        drag = tc.drag_by_mach
        drag(1.0)
    except AttributeError as e:
        raise HarnessError(f'seam TrajectoryCalc.drag_by_mach missing: {e}')
    return shot.atmo.get_density_factor_and_mach_for_altitude, drag


def segments(wind_spec, shift=0.0):
    """[mph, deg_from, until_yd|None] -> sorted [(until_ft, (wx, wy, wz))]; 0 deg = tail wind, 90 deg = from the left"""
    out = []
    for mph, deg, until in wind_spec:
        v = mph * 5280.0 / 3600.0
        r = math.radians(deg)
        if isinstance(until, (list, tuple)):
            until = until[0] * {'Yard': 1.0, 'Meter': 1 / 0.9144, 'Foot': 1 / 3.0, 'Inch': 1 / 36.0}[until[1]]     # -> yards (exact definitions)
        out.append((until * 3.0 + shift if until is not None else 1e8, (v * math.cos(r), 0.0, v * math.sin(r))))
    return sorted(out, key=lambda s: s[0])


def solve(spec, wind_spec, atmo_fn, drag_fn, alt0, dists_ft, dt=4e-5, g=G, boundary_shift=0.0):
    segs = segments(wind_spec, boundary_shift)
    s = initial_state(spec)

    def mkf(w):
        def f(s):
            x, y, z, vx, vy, vz = s
            ax, ay, az = vx - w[0], vy - w[1], vz - w[2]
            va = math.sqrt(ax * ax + ay * ay + az * az)
            dens, mach = atmo_fn(alt0 + y)
            k = dens * va * drag_fn(va / mach)
            return [vx, vy, vz, -k * ax, -k * ay + g, -k * az]
        return f

    def rk4(f, s, h):
        k1 = f(s)
        k2 = f([s[i] + .5 * h * k1[i] for i in range(6)])
        k3 = f([s[i] + .5 * h * k2[i] for i in range(6)])
        k4 = f([s[i] + h * k3[i] for i in range(6)])
        return [s[i] + h / 6 * (k1[i] + 2 * k2[i] + 2 * k3[i] + k4[i]) for i in range(6)]

    def advance_to(f, s, t, X):
        while True:
            n = rk4(f, s, dt)
            if n[0] >= X:
                lo, hi = 0.0, dt
                for _ in range(70):
                    mid = (lo + hi) / 2
                    if rk4(f, s, mid)[0] >= X:
                        hi = mid
                    else:
                        lo = mid
                return rk4(f, s, hi), t + hi
            if n[0] <= s[0]:
                raise ArithmeticError('reference: projectile not moving down-range')
            s = n
            t += dt

    out = []
    t = 0.0
    si = 0
    dset = set(dists_ft)
    events = sorted(dset | {u for u, _ in segs if u < max(dists_ft)})
    for X in events:
        while si < len(segs) and segs[si][0] <= s[0]:
            si += 1
        w = segs[si][1] if si < len(segs) else (0.0, 0.0, 0.0)
        if X > s[0]:
            s, t = advance_to(mkf(w), s, t, X)
        if X in dset:
            out.append((t, list(s)))
    return out


def columns(t, s):
    """(height, windage, speed, time)"""
    return (s[1], s[2], math.sqrt(s[3] ** 2 + s[4] ** 2 + s[5] ** 2), t)


def vacuum_parabola(spec, dists_ft, g=G):
    s0 = initial_state(spec)
    out = []
    for D in dists_ft:
        t = D / s0[3]
        s = [D, s0[1] + s0[4] * t + g * t * t / 2, s0[2] + s0[5] * t, s0[3], s0[4] + g * t, s0[5]]
        out.append((t, s))
    return out

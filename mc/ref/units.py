"""Exact-rational SI reference table for C06 (independent of the library's factor chains)."""
import math
from fractions import Fraction as F

INCH = F(254, 10000)            # m, exact
LB = F(45359237, 100000000)     # kg, exact
G0 = F(980665, 100000)          # m/s^2, standard gravity
GR = LB / 7000                  # grain
MMHG = F(133322387415, 10 ** 9)  # Pa, conventional mmHg

# name -> SI value of one unit (linear dimensions)
LINEAR = {
    'Inch': INCH, 'Foot': 12 * INCH, 'Yard': 36 * INCH, 'Mile': 63360 * INCH, 'NauticalMile': F(1852),
    'Millimeter': F(1, 1000), 'Centimeter': F(1, 100), 'Meter': F(1), 'Kilometer': F(1000), 'Line': INCH / 10,
    'FootPound': 12 * INCH * LB * G0, 'Joule': F(1),
    'MmHg': MMHG, 'InHg': F(254, 10) * MMHG, 'Bar': F(100000), 'hPa': F(100), 'PSI': LB * G0 / (INCH * INCH),
    'MPS': F(1), 'KMH': F(10, 36), 'FPS': 12 * INCH, 'MPH': 63360 * INCH / 3600, 'KT': F(1852, 3600),
    'Grain': GR, 'Ounce': GR * F(4375, 10), 'Gram': F(1, 1000), 'Pound': LB, 'Kilogram': F(1), 'Newton': 1 / G0,
}
PI = math.pi
ANG = {'Radian': 1.0, 'Degree': PI / 180, 'MOA': PI / 10800, 'Mil': PI / 3200, 'MRad': 1e-3,
       'Thousandth': PI / 3000, 'OClock': PI / 6}
TAN = {'InchesPer100Yd': 3600.0, 'CmPer100m': 10000.0}
TEMP = ('Fahrenheit', 'Celsius', 'Kelvin', 'Rankin')

DIMENSIONS = {
    'angular': ['Radian', 'Degree', 'MOA', 'Mil', 'MRad', 'Thousandth', 'InchesPer100Yd', 'CmPer100m', 'OClock'],
    'distance': ['Inch', 'Foot', 'Yard', 'Mile', 'NauticalMile', 'Millimeter', 'Centimeter', 'Meter', 'Kilometer',
                 'Line'],
    'energy': ['FootPound', 'Joule'],
    'pressure': ['MmHg', 'InHg', 'Bar', 'hPa', 'PSI'],
    'temperature': ['Fahrenheit', 'Celsius', 'Kelvin', 'Rankin'],
    'velocity': ['MPS', 'KMH', 'FPS', 'MPH', 'KT'],
    'weight': ['Grain', 'Ounce', 'Gram', 'Pound', 'Kilogram', 'Newton'],
}
DIM_OF = {u: d for d, us in DIMENSIONS.items() for u in us}


def to_rad(u, v):
    if u in TAN:
        return math.atan(v / TAN[u])
    return v * ANG[u]


def from_rad(u, r):
    if u in TAN:
        return math.tan(r) * TAN[u]
    return r / ANG[u]


def to_kelvin(u, v):
    v = F(v)
    return {'Kelvin': v, 'Celsius': v + F(27315, 100), 'Fahrenheit': (v + F(45967, 100)) * 5 / 9,
            'Rankin': v * 5 / 9}[u]


def from_kelvin(u, k):
    return {'Kelvin': k, 'Celsius': k - F(27315, 100), 'Fahrenheit': k * 9 / 5 - F(45967, 100),
            'Rankin': k * 9 / 5}[u]


def convert(u, v, m):
    """Reference value of m [u] expressed in v, and the scale against which 1e-6 relative is measured."""
    d = DIM_OF[u]
    if d == 'angular':
        exp = from_rad(v, to_rad(u, m))
        return exp, abs(exp)
    if d == 'temperature':
        k = to_kelvin(u, m)
        exp = float(from_kelvin(v, k))
        # affine scales: relative error is measured against the absolute temperature (in the finer degree)
        return exp, max(abs(exp), abs(float(k)) * 9 / 5, 1.0)
    exp = float(F(m) * LINEAR[u] / LINEAR[v])
    return exp, abs(exp)

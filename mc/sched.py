"""E4: cooperative baton scheduler for real threads running library code.

Scheduling points are 'call' events (optionally also 'line' events) of functions defined under REPO/py_ballisticcalc,
delivered by sys.settrace inside each harness thread. Exactly one thread runs between two points (all others are parked
on semaphores), so an execution is fully described by {global point index -> thread to switch to} plus the hand-over
priority used when a thread finishes; it is replayable, and replaying must reproduce the same point sequence."""
import os
import sys
import threading

from mc.core import REPO, HarnessError

LIB = os.path.join(REPO, 'py_ballisticcalc') + os.sep


class Run:
    def __init__(self, bodies, schedule=None, order=None, granularity='call', monitor=None):
        self.n = len(bodies)
        self.bodies = bodies
        self.schedule = {int(k): v for k, v in (schedule or {}).items()}
        self.order = list(order) if order is not None else list(range(self.n))
        self.granularity = granularity
        self.sems = [threading.Semaphore(0) for _ in bodies]
        self.done = [False] * self.n
        self.points = []            # (tid, function name, line)
        self.results = [None] * self.n
        self.main = threading.Semaphore(0)
        self.monitor = monitor      # callable(tid, frame) run at every point (shared-write monitor)
        self.switches = 0

    def _tracer(self, tid):
        line = self.granularity == 'line'

        def local(frame, event, arg):
            if event == 'line':
                self._point(tid, frame)
            return local

        def tr(frame, event, arg):
            if event == 'call' and frame.f_code.co_filename.startswith(LIB):
                self._point(tid, frame)
                return local if line else None
            return None
        return tr

    def _point(self, tid, frame):
        idx = len(self.points)
        self.points.append((tid, frame.f_code.co_name, frame.f_lineno))
        if self.monitor is not None:
            sys.settrace(None)
            try:
                self.monitor(tid, frame, idx)
            finally:
                sys.settrace(self._tracers[tid])
        nxt = self.schedule.get(idx)
        if nxt is not None and nxt != tid and not self.done[nxt]:
            self.switches += 1
            self.sems[nxt].release()
            self.sems[tid].acquire()

    def _thread(self, tid):
        self.sems[tid].acquire()
        sys.settrace(self._tracers[tid])
        try:
            self.results[tid] = self.bodies[tid]()
        except BaseException as e:  # noqa
            self.results[tid] = ['EXC', type(e).__name__, str(e)[:200]]
        finally:
            sys.settrace(None)
        self.done[tid] = True
        for j in self.order:
            if not self.done[j]:
                self.sems[j].release()
                return
        self.main.release()

    def run(self, timeout=120):
        self._tracers = [self._tracer(i) for i in range(self.n)]
        ths = [threading.Thread(target=self._thread, args=(i,), daemon=True) for i in range(self.n)]
        for t in ths:
            t.start()
        self.sems[self.order[0]].release()
        if not self.main.acquire(timeout=timeout):
            raise HarnessError(f'schedule did not complete within {timeout}s (no enabled thread: deadlock, or runaway body)')
        for t in ths:
            t.join(timeout=10)
        return self.results

    def signature(self):
        return [(t, f) for t, f, _ in self.points]


def running_thread_at(points, idx):
    return points[idx][0]

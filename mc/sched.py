"""E4: cooperative baton scheduler for real threads running library code.

Scheduling points are 'call' events (optionally also 'line' events) of functions defined under REPO/py_ballisticcalc,
delivered by sys.settrace inside each harness thread. Exactly one thread runs between two points (all others are parked
on semaphores), so an execution is fully described by {global point index -> thread to switch to} plus the hand-over
priority used when a thread finishes; it is replayable, and replaying must reproduce the same point sequence."""
import os
import sys
import threading

from mc.core import REPO, HarnessError

LIB = os.path.join(REPO, 'py_ballisticcalc') + os.sep


CURRENT = [None]        # the Run being executed (one at a time per process)


class CoopLock:
    """Stand-in for threading.Lock inside the LIBRARY (installed by install_coop_locks): outside a scheduled run it is a plain lock; inside one,
    a thread that finds the lock held by a parked thread hands the baton on instead of blocking the whole execution (a real lock would hang
    the cooperative scheduler). Waiting for a lock is a forced switch, not a pre-emption."""

    def __init__(self):
        import _thread
        self._real = _thread.allocate_lock()

    def acquire(self, blocking=True, timeout=-1):
        run = CURRENT[0]
        tid = run.tid_of_current_thread() if run is not None else None
        if tid is None:
            return self._real.acquire(blocking, timeout)
        while not self._real.acquire(False):
            if not blocking:
                return False
            run.blocked(tid)
        return True

    def release(self):
        self._real.release()

    def locked(self):
        return self._real.locked()

    def _at_fork_reinit(self):
        self._real._at_fork_reinit()

    __enter__ = acquire

    def __exit__(self, *a):
        self.release()


class CoopRLock:
    def __init__(self):
        self._lock = CoopLock()
        self._owner = None
        self._count = 0

    def acquire(self, blocking=True, timeout=-1):
        me = threading.get_ident()
        if self._owner == me:
            self._count += 1
            return True
        if not self._lock.acquire(blocking, timeout):
            return False
        self._owner, self._count = me, 1
        return True

    def release(self):
        if self._owner != threading.get_ident():
            raise RuntimeError('cannot release un-acquired lock')
        self._count -= 1
        if self._count == 0:
            self._owner = None
            self._lock.release()

    def _is_owned(self):
        return self._owner == threading.get_ident()

    def _at_fork_reinit(self):
        self._lock._at_fork_reinit()
        self._owner, self._count = None, 0

    __enter__ = acquire

    def __exit__(self, *a):
        self.release()


class _ThreadingProxy:
    """what a library module sees under the name `threading`: the real module, except that the locks it creates are cooperative"""
    Lock = CoopLock
    RLock = CoopRLock

    def __getattr__(self, name):
        return getattr(threading, name)


def install_coop_locks(modules):
    """replace the locks the library owns (module globals, class attributes) and the lock factories it will call later"""
    import _thread
    proxy = _ThreadingProxy()
    real_rlock_type = type(threading.RLock())
    n = 0

    def swap(holder, name, val):
        nonlocal n
        new = None
        if val is threading:
            new = proxy
        elif val is threading.Lock or val is _thread.allocate_lock:
            new = CoopLock
        elif val is threading.RLock:
            new = CoopRLock
        elif isinstance(val, _thread.LockType):
            new = CoopLock()
        elif isinstance(val, real_rlock_type):
            new = CoopRLock()
        if new is not None:
            try:
                setattr(holder, name, new)
                n += 1
            except (AttributeError, TypeError):
                pass
    for m in modules:
        for name, val in list(vars(m).items()):
            swap(m, name, val)
            if isinstance(val, type) and getattr(val, '__module__', '') == m.__name__:
                for a, b in list(vars(val).items()):
                    swap(val, a, b)
    return n


class Run:
    def __init__(self, bodies, schedule=None, order=None, granularity='call', monitor=None):
        self.n = len(bodies)
        self.bodies = bodies
        self.schedule = {int(k): v for k, v in (schedule or {}).items()}
        self.order = list(order) if order is not None else list(range(self.n))
        self.granularity = granularity
        self.sems = [threading.Semaphore(0) for _ in bodies]
        self.done = [False] * self.n
        self.points = []            # (tid, function name, line)
        self.results = [None] * self.n
        self.main = threading.Semaphore(0)
        self.monitor = monitor      # callable(tid, frame) run at every point (shared-write monitor)
        self.switches = 0
        self.idents = {}            # thread ident -> tid (for cooperative locks)
        self.lock_waits = 0

    def tid_of_current_thread(self):
        return self.idents.get(threading.get_ident())

    def blocked(self, tid):
        """thread tid cannot go on (a lock it needs is held by a parked thread): hand the baton to the next thread that is not done"""
        others = [j for j in self.order if j != tid and not self.done[j]]
        if not others:
            raise RuntimeError('deadlock: the lock is held and no other thread can run')
        self.lock_waits += 1
        if self.lock_waits > 100000:
            raise RuntimeError('livelock: 100000 hand-overs while waiting for locks')
        self.sems[others[0]].release()
        self.sems[tid].acquire()

    def _tracer(self, tid):
        line = self.granularity == 'line'

        def local(frame, event, arg):
            if event == 'line':
                self._point(tid, frame)
            return local

        def tr(frame, event, arg):
            if event == 'call' and frame.f_code.co_filename.startswith(LIB):
                self._point(tid, frame)
                return local if line else None
            return None
        return tr

    def _point(self, tid, frame):
        idx = len(self.points)
        self.points.append((tid, frame.f_code.co_name, frame.f_lineno))
        if self.monitor is not None:
            sys.settrace(None)
            try:
                self.monitor(tid, frame, idx)
            finally:
                sys.settrace(self._tracers[tid])
        nxt = self.schedule.get(idx)
        if nxt is not None and nxt != tid and not self.done[nxt]:
            self.switches += 1
            self.sems[nxt].release()
            self.sems[tid].acquire()

    def _thread(self, tid):
        self.sems[tid].acquire()
        self.idents[threading.get_ident()] = tid
        sys.settrace(self._tracers[tid])
        try:
            self.results[tid] = self.bodies[tid]()
        except BaseException as e:  # noqa
            self.results[tid] = ['EXC', type(e).__name__, str(e)[:200]]
        finally:
            sys.settrace(None)
        self.done[tid] = True
        for j in self.order:
            if not self.done[j]:
                self.sems[j].release()
                return
        self.main.release()

    def run(self, timeout=120):
        self._tracers = [self._tracer(i) for i in range(self.n)]
        ths = [threading.Thread(target=self._thread, args=(i,), daemon=True) for i in range(self.n)]
        CURRENT[0] = self
        try:
            for t in ths:
                t.start()
            self.sems[self.order[0]].release()
            if not self.main.acquire(timeout=timeout):
                raise HarnessError(f'schedule did not complete within {timeout}s (no enabled thread: deadlock, or runaway body)')
            for t in ths:
                t.join(timeout=10)
        finally:
            CURRENT[0] = None
        return self.results

    def signature(self):
        return [(t, f) for t, f, _ in self.points]


def running_thread_at(points, idx):
    return points[idx][0]

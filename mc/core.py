"""Shared runner for the bounded exhaustive checks (engines E1/E2 plumbing).

A check module (mc/checks/cNN.py) declares
    PID, LEVEL, TECHNIQUE, RULE, ASSUMPTIONS
    PARTS: dict name -> fn(cell) -> result dict
    plan(tier) -> list of (part_name, list_of_cells)   [cells are JSON values]
optionally
    explore(ctx)  -- sequential / frontier based exploration that does not fit the cell model
    summarize(ctx) -- extra coverage keys

result dict of a cell function (all keys optional):
    v     list of violations, each {'msg': str, 'key': signature-or-None, ...details}
    vac   True if the precondition of the property could not be established (never a violation)
    nt    JSON value naming what made the case non-trivial (None = trivial); distinct values are counted
    n     number of executions of library code made for this cell (default 1)
    states / transitions / traces   integers added to the model-checking counters
    obs   JSON value describing the outcome class (distinct outcomes are counted, see DESIGN guidance)
"""
import hashlib
import json
import multiprocessing
import os
import signal
import struct
import sys
import time
import traceback

VERIF = os.path.dirname(os.path.dirname(os.path.abspath(__file__)))
OUT = os.environ.get('VERIF_OUT', VERIF)   # evidence/ and replays/ go here (redirected only by the mutant self-test)
REPO = os.path.abspath(os.environ.get('VERIF_REPO', '/repo'))
GUARD = 'PYBC_VERIF'
NPROC = int(os.environ.get('VERIF_JOBS', '16'))
CASE_BUDGET_S = int(os.environ.get('VERIF_CASE_BUDGET', '120'))


class HarnessError(Exception):
    """Raised when the harness itself cannot work (never turned into a property violation)."""


def bind_repo():
    """Import the library from REPO's working tree and prove that this is what got imported."""
    os.environ[GUARD] = '1'
    if sys.path[0] != REPO:
        sys.path.insert(0, REPO)
    import warnings
    import logging
    from mc import cov as _cov
    _cov.start(REPO, (sys.argv[1] if len(sys.argv) > 1 else 'x').replace('/', '_')[:12])   # audit tool, off unless VERIF_COV is set
    warnings.simplefilter('ignore')
    warnings.showwarning = lambda *a, **k: None   # the library re-arms the warning filters inside its solver loop
    import py_ballisticcalc  # noqa
    logging.getLogger('py_balcalc').setLevel(logging.CRITICAL)
    f = os.path.abspath(py_ballisticcalc.__file__)
    if not f.startswith(REPO + os.sep):
        raise HarnessError(f'py_ballisticcalc imported from {f}, not from {REPO}')
    from py_ballisticcalc.trajectory_calc import TrajectoryCalc
    from mc import hist as _hist
    if _hist._PRISTINE is None:
        # locks owned by the library become visible to the schedule explorer (a real lock held by a parked thread would hang it)
        from mc import sched as _sched
        _sched.install_coop_locks(_hist.library_modules())
        _hist.capture_pristine()
    return {'repo': REPO, 'backend': TrajectoryCalc.__module__, 'package_file': f,
            'python': sys.version.split()[0]}


def fresh_world():
    """Every case starts from library defaults so that nothing (incl. /repo/.pybc.toml) leaks between cases."""
    from py_ballisticcalc import PreferredUnits, reset_globals
    # Deliberately NOT hist.restore_pristine(): whatever else the library keeps at module / class level is carried from case to case within a
    # worker, so the cases one worker runs form one long operation history (state that leaks between unrelated computations shows up in a
    # later case). A violation records the cases its worker ran before it (prior_cells) so that the replay meets the same history. Checks
    # whose executions must be replayable one by one (C10 schedules and histories) restore the pristine state themselves.
    PreferredUnits.defaults()
    reset_globals()


def bits(x):
    """IEEE bit pattern of a float as hex (used for bit-for-bit comparisons that survive JSON)."""
    return struct.pack('>d', float(x)).hex()


def from_lib(tb):
    """True if the innermost frame of a traceback is library code (then the library raised, not the harness)."""
    last = None
    while tb is not None:
        last = tb
        tb = tb.tb_next
    return last is not None and os.path.abspath(last.tb_frame.f_code.co_filename).startswith(REPO + os.sep)


class _Timeout(BaseException):
    pass


def _alarm(signum, frame):
    raise _Timeout()


_FUNCS = {}
_BUDGETS = {}      # per-part watchdog overrides (seconds), declared by a check module as BUDGETS = {'part': seconds}


_WORKER_LOG = []      # (part, cell) of the cases this process has run so far


def _run_cell(job):
    part, idx, cell = job
    fn = _FUNCS[part]
    t0 = time.time()
    prior = list(_WORKER_LOG[-400:])
    _WORKER_LOG.append((part, cell))
    signal.signal(signal.SIGALRM, _alarm)
    signal.alarm(int(_BUDGETS.get(part, CASE_BUDGET_S)))
    try:
        fresh_world()
        res = fn(cell) or {}
    except _Timeout:
        res = {'timeout': True}
    except HarnessError as e:
        res = {'harness_error': f'{e}'}
    except BaseException as e:  # noqa
        tb = sys.exc_info()[2]
        txt = ''.join(traceback.format_exception(type(e), e, tb))[-1500:]
        if from_lib(tb):
            res = {'v': [{'msg': f'library raised {type(e).__name__}: {e}', 'key': None, 'traceback': txt}]}
        else:
            res = {'harness_error': txt}
    finally:
        signal.alarm(0)
        if os.environ.get('VERIF_COV'):
            from mc import cov as _cov
            _cov.dump()
    res['_t'] = time.time() - t0
    if res.get('v') and prior:
        res['_prior'] = prior
    return part, idx, res


class Ctx:
    def __init__(self, mod, tier, seed):
        self.mod = mod
        self.pid = mod.PID
        self.tier = tier
        self.seed = seed
        self.t0 = time.time()
        self.viol = []          # (part, cell, violation dict)
        self.known = []
        self.harness_errors = []
        self.parts = {}
        self.nt = set()
        self.obs = set()
        self.evaluations = 0
        self.states = 0
        self.transitions = 0
        self.traces = 0
        self.samples = []
        self.extra = {}
        self.exhaustive = True
        self.caps = []
        self.findings = load_known_findings(self.pid)

    # ---- bookkeeping -----------------------------------------------------------------------------
    def part(self, name):
        return self.parts.setdefault(name, {'cells': 0, 'evaluations': 0, 'vacuous': 0, 'violations': 0,
                                            'timeouts': 0, 'wall_s': 0.0, 'cpu_s': 0.0})

    def absorb(self, part, cell, res):
        p = self.part(part)
        p['cells'] += 1
        n = int(res.get('n', 1))
        p['evaluations'] += n
        p['cpu_s'] += res.get('_t', 0.0)
        self.evaluations += n
        self.states += int(res.get('states', 0))
        self.transitions += int(res.get('transitions', 0))
        self.traces += int(res.get('traces', 0))
        if res.get('harness_error'):
            self.harness_errors.append((part, cell, res['harness_error']))
            return
        if res.get('timeout'):
            p['timeouts'] += 1
            if getattr(self.mod, 'TIMEOUT_IS_VIOLATION', False):
                res.setdefault('v', []).append({'msg': f'no result within the {CASE_BUDGET_S}s watchdog', 'key': None})
            else:
                self.harness_errors.append((part, cell, f'case exceeded {CASE_BUDGET_S}s budget'))
                return
        if res.get('vac'):
            p['vacuous'] += 1
        nt = res.get('nt')
        if nt is not None and not res.get('vac'):
            self.nt.add(json.dumps([part, nt], sort_keys=True, default=str))
        if res.get('obs') is not None:
            self.obs.add(json.dumps([part, res['obs']], sort_keys=True, default=str))
        for v in res.get('v', []):
            p['violations'] += 1
            if res.get('_prior') and v.get('replay_cell') is None:
                v = dict(v, _prior=res['_prior'])
            self.violation(part, cell, v)
        for extra_k, extra_v in (res.get('extra') or {}).items():
            if isinstance(extra_v, (int, float)):
                if extra_k.startswith('max_'):
                    self.extra[extra_k] = max(self.extra.get(extra_k, extra_v), extra_v)
                elif extra_k.startswith('min_'):
                    self.extra[extra_k] = min(self.extra.get(extra_k, extra_v), extra_v)
                else:
                    self.extra[extra_k] = self.extra.get(extra_k, 0) + extra_v

    def violation(self, part, cell, v):
        key = v.get('key')
        for f in self.findings:
            if key is not None and f['key'] == key:
                self.known.append((f, part, cell, v))
                return
        self.viol.append((part, cell, v))

    def sample(self, part, cell, res):
        if len(self.samples) < 6:
            s = {'part': part, 'cell': cell}
            if res.get('sample') is not None:
                s['case'] = res['sample']
            for k in ('obs', 'vac'):
                if res.get(k) is not None:
                    s[k] = res[k]
            self.samples.append(json.loads(json.dumps(s, default=str)))

    def cap(self, what):
        self.exhaustive = False
        self.caps.append(what)

    # ---- parallel map over cells --------------------------------------------------------------------
    def run_part(self, part, cells, chunksize=None):
        cells = list(cells)
        t0 = time.time()
        n = len(cells)
        if n == 0:
            return []
        # VERIF_SEED rotates dispatch order and sample choice only; the set of cells is fixed
        rot = self.seed % n
        order = list(range(rot, n)) + list(range(0, rot))
        stride = max(1, n // 3)
        sample_idx = {order[0], order[min(n - 1, stride)], order[min(n - 1, 2 * stride)]}
        jobs = [(part, i, cells[i]) for i in order]
        out = [None] * n
        if NPROC <= 1 or n < 4:
            it = map(_run_cell, jobs)
        else:
            pool = get_pool()
            if chunksize is None:
                chunksize = max(1, min(64, n // (NPROC * 8)))
            it = pool.imap_unordered(_run_cell, jobs, chunksize)
        n_err = 0
        for _, idx, res in it:
            out[idx] = res
            if res.get('harness_error') or (res.get('timeout') and not getattr(self.mod, 'TIMEOUT_IS_VIOLATION', False)):
                n_err += 1
                if n_err >= 4:
                    # a broken harness / runaway tree: do not grind through every remaining cell at one watchdog period each
                    close_pool()
                    for i, r in enumerate(out):
                        if r is not None:
                            self.absorb(part, cells[i], r)
                    raise HarnessError(f'part {part}: {n_err} cases could not be evaluated (first: {str(res.get("harness_error") or "watchdog timeout")[:300]}); aborting, no verdict')
        for i, res in enumerate(out):
            self.absorb(part, cells[i], res)
            if i in sample_idx:
                self.sample(part, cells[i], res)
        self.part(part)['wall_s'] += round(time.time() - t0, 3)
        return out

    # ---- results ---------------------------------------------------------------------------------------
    def finish(self, bind_info):
        wall = time.time() - self.t0
        os.makedirs(os.path.join(OUT, 'evidence'), exist_ok=True)
        os.makedirs(os.path.join(OUT, 'replays'), exist_ok=True)
        import glob
        for old in glob.glob(os.path.join(OUT, 'replays', f'{self.pid}-*.json')):     # replay files of earlier runs of this check are stale
            os.remove(old)
        if self.harness_errors:
            for part, cell, txt in self.harness_errors[:5]:
                print(f'ERROR harness: property={self.pid} part={part} cell={json.dumps(cell, default=str)[:300]}\n{txt}')
            if not self.viol:
                print(f'ERROR harness: {len(self.harness_errors)} case(s) could not be evaluated; no verdict')
                return 2
            # concrete, replayable violations found in OTHER cases stand on their own; the unevaluated cases are reported, not judged
            print(f'ERROR harness: {len(self.harness_errors)} case(s) could not be evaluated (not judged); violations below come from cases that were evaluated')
            self.exhaustive = False
            self.caps.append(f'{len(self.harness_errors)} cases not evaluated (harness error / watchdog)')
        replay_paths = []
        seen_sig = set()
        per_part = {}
        for part, cell, v in self.viol:
            if v.get('replay_cell') is not None:      # a minimal case (e.g. one schedule) inside a multi-case cell
                part, cell = v.get('replay_part', part), v['replay_cell']
            prior = v.pop('_prior', None) if isinstance(v, dict) else None
            rec = {'property': self.pid, 'part': part, 'cell': cell, 'violation': v, 'tier': self.tier,
                   'replay_cmd': f'./check --replay <this file>'}
            if prior:
                # the cases the same worker process ran before this one (library state at module level is carried between cases)
                rec['prior_cells'] = [[p_, c_] for p_, c_ in prior]
            blob = json.dumps(rec, sort_keys=True, default=str)
            h = hashlib.sha256(json.dumps([part, cell], sort_keys=True, default=str).encode()).hexdigest()[:12]
            if h in seen_sig:
                continue
            seen_sig.add(h)
            per_part[part] = per_part.get(part, 0) + 1
            if per_part[part] <= 8:
                path = os.path.join(OUT, 'replays', f'{self.pid}-{h}.json')
                with open(path, 'w') as fh:
                    fh.write(blob)
                replay_paths.append((path, part, v))
        for f, part, cell, v in self.known[:0]:
            pass
        known_by_key = {}
        for f, part, cell, v in self.known:
            known_by_key.setdefault(f['key'], [f, 0])[1] += 1
        for key, (f, cnt) in known_by_key.items():
            print(f"KNOWN-FINDING: property={self.pid} key={key} {f['text']} ({cnt} case(s) in this run)")
        coverage = {
            'evaluations': self.evaluations,
            'distinct_nontrivial': len(self.nt),
            'rule': self.mod.RULE,
            'samples': self.samples or [{'note': 'no cells'}],
            'states': self.states,
            'transitions': self.transitions,
            'traces_validated_against_impl': self.traces,
            'distinct_outcomes': len(self.obs),
            'exhaustive': bool(self.exhaustive),
            'caps_hit': self.caps,
            'parts': self.parts,
            'bound_to': bind_info,
            'known_findings_matched': {k: c for k, (f, c) in known_by_key.items()},
            'technique': technique_of(self.mod),
        }
        coverage.update(self.extra)
        if self.states == 0:
            for k in ('states', 'transitions', 'traces_validated_against_impl'):
                coverage.pop(k)
        ev = {'property_id': self.pid, 'tier': self.tier, 'seed': self.seed, 'level': self.mod.LEVEL,
              'coverage': coverage, 'assumptions': list(self.mod.ASSUMPTIONS), 'wall_s': round(wall, 3),
              'violations': len(self.viol)}
        with open(os.path.join(OUT, 'evidence', f'{self.pid}.json'), 'w') as fh:
            json.dump(ev, fh, indent=1, default=str)
        print(f'{self.pid} {self.tier}: cells={sum(p["cells"] for p in self.parts.values())} '
              f'evaluations={self.evaluations} nontrivial={len(self.nt)} outcomes={len(self.obs)} '
              f'states={self.states} transitions={self.transitions} violations={len(self.viol)} '
              f'known={len(self.known)} exhaustive={self.exhaustive} wall={wall:.1f}s')
        for name, p in self.parts.items():
            print(f'   part {name}: {p}')
        if self.viol:
            by = {}
            for part, cell, v in self.viol:
                k = f'{part}:{cell[0] if isinstance(cell, (list, tuple)) and cell else cell}'[:60]
                by[k] = by.get(k, 0) + 1
            print('   violations by part:first cell key =', dict(sorted(by.items())))
            for path, part, v in replay_paths:
                print(f'VIOLATION property={self.pid} replay={path}')
                print(f'   [{part}] {v.get("msg")}')
            print(f'{len(self.viol)} violating case(s); {len(replay_paths)} replay file(s) written')
            return 1
        return 0


def technique_of(mod):
    t = mod.TECHNIQUE
    if getattr(mod, 'SCHED_SETS', None):
        from mc.checks import c10_sched
        t += c10_sched.SCHED_NOTE + ', '.join(f'{bs} ({g} granularity)' for bs, g in mod.SCHED_SETS)
    return t


_POOL = None


def get_pool():
    global _POOL
    if _POOL is None:
        _POOL = multiprocessing.get_context('fork').Pool(NPROC)
    return _POOL


def close_pool():
    global _POOL
    if _POOL is not None:
        _POOL.terminate()
        _POOL = None


def load_known_findings(pid):
    out = []
    path = os.path.join(VERIF, 'KNOWN_FINDINGS.txt')
    if not os.path.exists(path):
        return out
    for line in open(path, encoding='utf-8'):
        line = line.strip()
        if not line.startswith('finding:'):
            continue  # 'fixed:' lines and comments suppress nothing
        body = line[len('finding:'):].strip()
        toks = body.split(None, 2)
        kv = dict(t.split('=', 1) for t in toks[:2] if '=' in t)
        if kv.get('property') == pid and 'key' in kv:
            out.append({'key': kv['key'], 'text': toks[2] if len(toks) > 2 else ''})
    return out


def load_check(pid):
    import importlib
    mod = importlib.import_module(f'mc.checks.{pid.lower()}')
    _FUNCS.update(mod.PARTS)
    _BUDGETS.update(getattr(mod, 'BUDGETS', {}))
    if getattr(mod, 'SCHED_SETS', None):
        # this property's code under thread interleavings (engine E4 lives with C10; the body sets named here exercise this property)
        from mc.checks import c10_sched
        _FUNCS.update({'level': c10_sched.level, 'one': c10_sched.one})
        _BUDGETS.setdefault('level', 900)
    return mod


def run_check(pid, tier, seed):
    try:
        info = bind_repo()
        mod = load_check(pid)
    except HarnessError as e:
        print(f'ERROR harness: {e}')
        return 2
    ctx = Ctx(mod, tier, seed)
    aborted = []
    # a part that cannot be evaluated (e.g. the seam it observes through is gone) is abandoned after a few cases; the other parts still run:
    # concrete violations they find stand on their own, and without any the check ends with exit 2 and no verdict
    try:
        for part, cells in mod.plan(tier):
            try:
                ctx.run_part(part, cells)
            except HarnessError as e:
                print(f'ERROR harness: {e}')
                aborted.append(str(e))
                close_pool()
        if hasattr(mod, 'explore'):
            mod.explore(ctx)
        if getattr(mod, 'SCHED_SETS', None) and not ctx.viol:
            from mc.checks import c10_sched
            c10_sched.explore_sets(ctx, mod.SCHED_SETS)
        if hasattr(mod, 'summarize'):
            mod.summarize(ctx)
    except HarnessError as e:
        print(f'ERROR harness: {e}')
        aborted.append(str(e))
        close_pool()
    if aborted:
        if not ctx.viol:
            return 2
        for a in aborted:
            ctx.harness_errors.append(('-', None, a))
    rc = ctx.finish(info)
    close_pool()
    return rc


def replay(path):
    rec = json.load(open(path))
    info = bind_repo()
    mod = load_check(rec['property'])
    part, idx, res = _run_cell((rec['part'], 0, rec['cell']))
    if not res.get('v') and rec.get('prior_cells'):
        # not reproduced from a fresh process: replay the history of the worker that found it (its earlier cases, in order), then the case
        print(f"not reproduced from a fresh library state; replaying the {len(rec['prior_cells'])} earlier case(s) of the worker first")
        for p_, c_ in rec['prior_cells']:
            _run_cell((p_, 0, c_))
        part, idx, res = _run_cell((rec['part'], 0, rec['cell']))
    print(f"replay property={rec['property']} part={part} bound_to={info['repo']}")
    print('cell:', json.dumps(rec['cell'], default=str)[:2000])
    if res.get('harness_error'):
        print('ERROR harness:', res['harness_error'])
        return 2
    vs = res.get('v', [])
    if res.get('timeout'):
        vs = vs + [{'msg': 'timeout'}]
    findings = load_known_findings(rec['property'])
    live = [v for v in vs if not any(f['key'] == v.get('key') for f in findings if v.get('key'))]
    for v in vs:
        print('  ->', json.dumps(v, default=str)[:1500])
    if live:
        print(f"VIOLATION property={rec['property']} replay={path}")
        return 1
    print('no violation on this tree' + (' (known finding only)' if vs else ''))
    return 0

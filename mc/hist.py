"""E2 support: canonical full-state fingerprints of real library objects and of all library module / class level state."""
import struct
import sys
import types

_SKIP_TYPES = (types.ModuleType, types.FunctionType, types.BuiltinFunctionType, type, types.MethodType, property, classmethod, staticmethod)


def fp(obj, display=True, _seen=frozenset()):
    """Recursive canonical fingerprint. Floats by IEEE bits. Quantities: (class, raw bits[, display unit]).
    display=False drops the display unit of quantities (conversions may only change the unit a quantity displays in)."""
    t = type(obj)
    if t is float:
        return obj.hex()
    if t is bool or obj is None or t is int or t is str or t is bytes:
        return repr(obj)
    if isinstance(obj, float):
        return float(obj).hex()
    if isinstance(obj, (int, str, bytes)):
        return ('v', repr(obj))
    if t.__name__ == 'DragDataPoint':
        return ('ddp', obj.Mach.hex() if type(obj.Mach) is float else repr(obj.Mach), obj.CD.hex() if type(obj.CD) is float else repr(obj.CD))
    if t is list and obj and type(obj[0]) is dict and len(obj) > 20:
        return ('table', repr(obj))      # shipped drag tables: list of {'Mach': float, 'CD': float}; repr of a float round-trips
    if isinstance(obj, _SKIP_TYPES):
        return ('ref', getattr(obj, '__qualname__', getattr(obj, '__name__', str(type(obj)))))
    if id(obj) in _seen:
        return ('cyc',)
    seen = _seen | {id(obj)}
    if isinstance(obj, (list, tuple)):
        return ('l', type(obj).__name__, tuple(fp(x, display, seen) for x in obj))
    if isinstance(obj, dict):
        return ('d', tuple((repr(k), fp(v, display, seen)) for k, v in obj.items()))
    if isinstance(obj, (set, frozenset)):
        return ('s', tuple(sorted(repr(x) for x in obj)))
    d = {}
    if hasattr(obj, '__dict__'):
        d.update(vars(obj))
    for c in type(obj).__mro__:
        for s in getattr(c, '__slots__', ()):
            if hasattr(obj, s):
                d[s] = getattr(obj, s)
    if not display and '_defined_units' in d and '_value' in d:
        d = {'_value': d['_value']}
    if d:
        return ('o', type(obj).__name__, tuple((k, fp(v, display, seen)) for k, v in sorted(d.items())))
    return ('x', type(obj).__name__, repr(obj) if isinstance(obj, (complex,)) else '')


def library_modules():
    return [m for n, m in sorted(sys.modules.items()) if n.startswith('py_ballisticcalc') and m is not None]


def global_fp(display=True):
    """fingerprint of every library module global and class attribute that is data (not code)"""
    out = []
    for m in library_modules():
        for k, v in sorted(vars(m).items()):
            if k.startswith('__'):
                continue
            if isinstance(v, (types.ModuleType, types.FunctionType, types.BuiltinFunctionType)):
                continue
            if isinstance(v, type):
                if getattr(v, '__module__', '').startswith('py_ballisticcalc') and v.__module__ == m.__name__:
                    attrs = []
                    for a, b in sorted(vars(v).items()):
                        if a.startswith('__') or callable(b) or isinstance(b, (property, classmethod, staticmethod, types.MemberDescriptorType,
                                                                                  types.GetSetDescriptorType)):
                            continue
                        attrs.append((a, fp(b, display)))
                    out.append((m.__name__, k, tuple(attrs)))
                continue
            if type(v).__module__ in ('typing', 'typing_extensions', 'logging', 're'):
                continue
            out.append((m.__name__, k, fp(v, display)))
    return tuple(out)


def digest(x):
    import hashlib
    return hashlib.sha256(repr(x).encode()).hexdigest()[:20]

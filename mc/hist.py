"""E2 support: canonical full-state fingerprints of real library objects and of all library module / class level state."""
import enum
import struct
import sys
import types

_SKIP_TYPES = (types.ModuleType, types.FunctionType, types.BuiltinFunctionType, type, types.MethodType, property, classmethod, staticmethod)


def fp(obj, display=True, _seen=frozenset()):
    """Recursive canonical fingerprint. Floats by IEEE bits. Quantities: (class, raw bits[, display unit]).
    display=False drops the display unit of quantities (conversions may only change the unit a quantity displays in)."""
    t = type(obj)
    if t is float:
        return obj.hex()
    if t is bool or obj is None or t is int or t is str or t is bytes:
        return repr(obj)
    if isinstance(obj, float):
        return float(obj).hex()
    if isinstance(obj, (int, str, bytes)):
        return ('v', repr(obj))
    if t.__name__ == 'DragDataPoint':
        return ('ddp', obj.Mach.hex() if type(obj.Mach) is float else repr(obj.Mach), obj.CD.hex() if type(obj.CD) is float else repr(obj.CD))
    if t is list and obj and type(obj[0]) is dict and len(obj) > 20:
        return ('table', repr(obj))      # shipped drag tables: list of {'Mach': float, 'CD': float}; repr of a float round-trips
    if isinstance(obj, _SKIP_TYPES):
        return ('ref', getattr(obj, '__qualname__', getattr(obj, '__name__', str(type(obj)))))
    if id(obj) in _seen:
        return ('cyc',)
    seen = _seen | {id(obj)}
    if isinstance(obj, (list, tuple)):
        return ('l', type(obj).__name__, tuple(fp(x, display, seen) for x in obj))
    if isinstance(obj, dict):
        return ('d', tuple((repr(k), fp(v, display, seen)) for k, v in obj.items()))
    if isinstance(obj, (set, frozenset)):
        return ('s', tuple(sorted(repr(x) for x in obj)))
    d = {}
    if hasattr(obj, '__dict__'):
        d.update(vars(obj))
    for c in type(obj).__mro__:
        for s in getattr(c, '__slots__', ()):
            if hasattr(obj, s):
                d[s] = getattr(obj, s)
    if not display and '_defined_units' in d and '_value' in d:
        d = {'_value': d['_value']}
    if d:
        return ('o', type(obj).__name__, tuple((k, fp(v, display, seen)) for k, v in sorted(d.items())))
    return ('x', type(obj).__name__, repr(obj) if isinstance(obj, (complex,)) else '')


def library_modules():
    return [m for n, m in sorted(sys.modules.items()) if n.startswith('py_ballisticcalc') and m is not None]


def global_fp(display=True):
    """fingerprint of every library module global and class attribute that is data (not code)"""
    out = []
    for m in library_modules():
        for k, v in sorted(vars(m).items()):
            if k.startswith('__'):
                continue
            if isinstance(v, (types.ModuleType, types.FunctionType, types.BuiltinFunctionType)):
                continue
            if isinstance(v, type):
                if getattr(v, '__module__', '').startswith('py_ballisticcalc') and v.__module__ == m.__name__:
                    attrs = []
                    for a, b in sorted(vars(v).items()):
                        if a.startswith('__') or (callable(b) and not isinstance(b, enum.Enum)) or isinstance(b, (property, classmethod, staticmethod, types.MemberDescriptorType,
                                                                                  types.GetSetDescriptorType)):
                            continue
                        attrs.append((a, fp(b, display)))
                    out.append((m.__name__, k, tuple(attrs)))
                continue
            if type(v).__module__ in ('typing', 'typing_extensions', 'logging', 're'):
                continue
            out.append((m.__name__, k, fp(v, display)))
    return tuple(out)


def digest(x):
    import hashlib
    return hashlib.sha256(repr(x).encode()).hexdigest()[:20]


# ---- pristine module state: captured right after import, restored before every case / schedule execution -------------------------------
# A stateless explorer replays executions in one long-lived process; module- or class-level state that a (changed) library keeps between
# calls would make the outcome of an execution depend on the executions before it. Restoring the state the library had right after import
# makes every execution start from the same world, so a failing schedule or history fails again when it is replayed.
_PRISTINE = None


def _is_lib_instance(obj):
    import enum
    t = type(obj)
    return (getattr(t, '__module__', '') or '').startswith('py_ballisticcalc') and not isinstance(obj, (enum.Enum, type))


def _memento(obj, seen, depth=0):
    if id(obj) in seen or depth > 6:
        return ('ref', obj)
    t = type(obj)
    if t is list:
        seen = seen | {id(obj)}
        return ('list', obj, [_memento(x, seen, depth + 1) for x in obj], _plain_copy(obj))
    if t is dict:
        seen = seen | {id(obj)}
        return ('dict', obj, [(k, _memento(v, seen, depth + 1)) for k, v in obj.items()], _plain_copy(obj))
    if t is set:
        return ('set', obj, set(obj))
    if _is_lib_instance(obj):
        seen = seen | {id(obj)}
        d = {}
        if hasattr(obj, '__dict__'):
            d.update(vars(obj))
        for c in t.__mro__:
            for s in getattr(c, '__slots__', ()):
                if hasattr(obj, s):
                    d[s] = getattr(obj, s)
        return ('obj', obj, [(k, _memento(v, seen, depth + 1)) for k, v in d.items()], hasattr(obj, '__dict__'))
    return ('ref', obj)


def _is_plain(obj, depth=0):
    t = type(obj)
    if t in (float, int, str, bool, bytes) or obj is None:
        return True
    if depth > 4:
        return False
    if t in (list, tuple):
        return all(_is_plain(x, depth + 1) for x in obj)
    if t is dict:
        return all(type(k) in (str, int, float) and _is_plain(v, depth + 1) for k, v in obj.items())
    return False


def _plain_copy(obj):
    """containers of plain data only (the drag tables): a deep copy that is compared with == first (one C-level comparison instead of a walk)"""
    import copy
    return copy.deepcopy(obj) if _USE_PLAIN and len(obj) > 8 and _is_plain(obj) else None


_USE_PLAIN = True


class _Dirty(Exception):
    pass


def _restore(m, dry=False):
    kind, obj = m[0], m[1]
    if kind in ('list', 'dict') and m[3] is not None and obj == m[3]:
        return obj
    if kind == 'list':
        kids = m[2]
        if len(obj) != len(kids) or any(a is not k[1] for a, k in zip(obj, kids)):
            if dry:
                raise _Dirty()
            obj[:] = [k[1] for k in kids]
        for k in kids:
            _restore(k, dry)
    elif kind == 'dict':
        kids = m[2]
        if len(obj) != len(kids) or any((k not in obj) or (obj[k] is not c[1]) for k, c in kids):
            if dry:
                raise _Dirty()
            obj.clear()
            obj.update((k, c[1]) for k, c in kids)
        for _, c in kids:
            _restore(c, dry)
    elif kind == 'set':
        if obj != m[2]:
            if dry:
                raise _Dirty()
            obj.clear()
            obj.update(m[2])
    elif kind == 'obj':
        kids = m[2]
        names = {k for k, _ in kids}
        if m[3]:
            for k in [k for k in vars(obj) if k not in names]:
                if dry:
                    raise _Dirty()
                try:
                    delattr(obj, k)
                except Exception:   # noqa
                    pass
        for k, c in kids:
            try:
                if getattr(obj, k, _MISSING) is not c[1]:
                    if dry:
                        raise _Dirty()
                    object.__setattr__(obj, k, c[1])
            except _Dirty:
                raise
            except Exception:   # noqa  (read-only attribute: nothing we could have changed either)
                pass
            _restore(c, dry)
    return obj


_MISSING = object()


def _data_names(ns, modname=None):
    for k, v in list(ns.items()):
        if k.startswith('__'):
            continue
        if isinstance(v, (types.ModuleType, types.FunctionType, types.BuiltinFunctionType, type)) or (callable(v) and not isinstance(v, enum.Enum)):
            continue
        if isinstance(v, (property, classmethod, staticmethod, types.MemberDescriptorType, types.GetSetDescriptorType)):
            continue
        if type(v).__module__ in ('typing', 'typing_extensions', 'logging', 're'):
            continue
        yield k, v


def capture():
    """remember every data global / class attribute of the library (object identity and, for mutable containers and library instances, content)"""
    snap = []
    top = set()

    def _memento_once(v):
        if id(v) in top:
            return ('ref', v)       # the same object under a second name (re-exported tables): content captured once
        if type(v) in (list, dict, set) or _is_lib_instance(v):
            top.add(id(v))
        return _memento(v, frozenset())
    for m in library_modules():
        names = {k: _memento_once(v) for k, v in _data_names(vars(m))}
        snap.append((m, names))
        for k, v in list(vars(m).items()):
            if isinstance(v, type) and getattr(v, '__module__', '') == m.__name__:
                snap.append((v, {a: _memento_once(b) for a, b in _data_names(vars(v))}))
    return snap


def capture_pristine():
    global _PRISTINE
    _PRISTINE = capture()


def restore_pristine():
    if _PRISTINE is not None:
        restore(_PRISTINE)


class pristine:
    """with pristine(): ... runs the block in the library state as imported and puts the current state back afterwards (reference computations
    in the middle of a live history)"""
    def __enter__(self):
        global _USE_PLAIN
        if is_pristine():
            self.live = None        # the usual case (a library without module-level state): nothing to save
            return
        _USE_PLAIN = False          # a one-off capture: walking is cheaper than deep-copying
        try:
            self.live = capture()
        finally:
            _USE_PLAIN = True
        restore_pristine()

    def __exit__(self, *a):
        if self.live is None:
            restore_pristine()
        else:
            restore(self.live)
        return False


def is_pristine():
    if _PRISTINE is None:
        return True
    try:
        restore(_PRISTINE, dry=True)
        return True
    except _Dirty:
        return False


def restore(snap, dry=False):
    for owner, names in snap:
        ns = vars(owner)
        # data names the library added since import (lazily created caches): remove them
        for k, _ in list(_data_names(ns)):
            if k not in names:
                if dry:
                    raise _Dirty()
                try:
                    delattr(owner, k)
                except Exception:   # noqa
                    pass
        for k, m in names.items():
            if ns.get(k, _MISSING) is not m[1]:
                if dry:
                    raise _Dirty()
                try:
                    setattr(owner, k, m[1])
                except Exception:   # noqa
                    pass
            _restore(m, dry)

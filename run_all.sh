#!/bin/sh
# ./run_all.sh [quick|thorough]  -- runs every registered check, prints one line per check
tier=${1:-quick}
cd "$(dirname "$0")"
rc_all=0
for id in C01 C02 C03 C04 C05 C06 C07 C08 C09 C10 C11 C12 C13 C14 C15 C16 C17 C18 C19 C20; do
  start=$(date +%s)
  ./check $id $tier > /var/tmp/verif_$id.log 2>&1
  rc=$?
  end=$(date +%s)
  echo "$id rc=$rc $((end-start))s $(grep -c '^VIOLATION' /var/tmp/verif_$id.log) violation-lines $(grep -c '^KNOWN-FINDING' /var/tmp/verif_$id.log) known"
  [ $rc -ne 0 ] && rc_all=1 && grep -m3 'VIOLATION\|ERROR' /var/tmp/verif_$id.log
  rm -f /var/tmp/verif_$id.log
done
exit $rc_all

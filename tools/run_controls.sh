#!/bin/sh
# tools/run_controls.sh [tier] -- behaviour-preserving refactors written by independent sub-agents (controls/<id>/patch.diff): every check must stay
# silent on each of them (false-alarm regression). ~4 min per control.
tier=${1:-quick}
cd /verif
bad=0
for d in controls/*/; do
  echo "=== $d"
  tools/try_control.sh /verif/$d/patch.diff $tier | tail -6 || bad=$((bad+1))
done
echo "controls_with_alarms=$bad"
[ $bad -eq 0 ]

#!/bin/sh
# tools/try_e4.sh <patch.diff>  -- development aid: the schedule exploration (E4) of C10 only, on a scratch copy with the patch applied
patch=$1
d=/var/tmp/e4try_$$
rsync -a --exclude .git --exclude '*.ipynb' --exclude __pycache__ /repo/ $d/ || exit 2
(cd $d && patch -p1 -s < "$patch") || { rm -rf $d; exit 2; }
VERIF_C10_ONLY=sched VERIF_REPO=$d VERIF_OUT=$d/_out timeout 1500 /verif/check C10 quick > $d.log 2>&1
rc=$?
echo "rc=$rc violations=$(grep -c '^VIOLATION' $d.log) $(grep -m1 '^C[0-9][0-9] ' $d.log | cut -c1-160)"
grep -m2 '^   \[' $d.log | cut -c1-330
grep -m2 'ERROR' $d.log | cut -c1-300
rm -rf $d $d.log
exit $rc

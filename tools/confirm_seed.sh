#!/bin/sh
# tools/confirm_seed.sh <ID>   -- confirm both seeds (a, b) of /tmp/seed/<ID> in that scratch worktree: tests pass with the patch,
# demo fails with it and passes without it. Writes /tmp/seed/<ID>/_seed/<v>/confirm.txt
id=$1
wt=${SEEDROOT:-/tmp/seed}/$id
cd $wt || exit 2
for v in a b c d e; do
  d=$wt/_seed/$v
  [ -f $d/patch.diff ] || continue
  git checkout -q -- . 
  {
    echo "== seed $id/$v =="
    git apply --check $d/patch.diff && echo "apply-check: ok"
    /venv/bin/python _seed/$v/demo.py > $d/demo_clean.out 2>&1; echo "demo clean exit=$?"
    git apply $d/patch.diff
    /venv/bin/python _seed/$v/demo.py > $d/demo_patched.out 2>&1; echo "demo patched exit=$?"
    /venv/bin/python -m pytest -q -p no:cacheprovider --timeout=900 tests 2>&1 | tail -1
    git checkout -q -- .
    git status --short | grep -v "_seed" | head -3
  } > $d/confirm.txt 2>&1
done

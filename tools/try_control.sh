#!/bin/sh
# tools/try_control.sh <patch.diff> [tier]  (CHECKS="C10 C16" restricts the checks run)  -- behaviour-preserving change: apply to a scratch copy of /repo and run ALL checks; every one must stay silent
patch=$1; tier=${2:-quick}
d=/var/tmp/ctrltry_$$
rsync -a --exclude .git --exclude '*.ipynb' --exclude __pycache__ /repo/ $d/ || exit 2
(cd $d && patch -p1 -s < "$patch") || { rm -rf $d; echo "patch does not apply"; exit 2; }
bad=0
for id in ${CHECKS:-C01 C02 C03 C04 C05 C06 C07 C08 C09 C10 C11 C12 C13 C14 C15 C16 C17 C18 C19 C20}; do
  VERIF_REPO=$d VERIF_OUT=$d/_out timeout 1500 /verif/check $id $tier > $d.$id.log 2>&1
  rc=$?
  if [ $rc -ne 0 ]; then bad=$((bad+1)); echo "  $id rc=$rc $(grep -m1 '^C[0-9][0-9] ' $d.$id.log | cut -c1-120)"; grep -m2 '^   \[\|ERROR' $d.$id.log | cut -c1-300; fi
  rm -f $d.$id.log
done
rm -rf $d
echo "alarms=$bad"
[ $bad -eq 0 ]

#!/venv/bin/python
"""Regenerates MANIFEST.json from the check modules that exist (keeps the manifest valid at all times)."""
import importlib
import json
import os
import sys

HERE = os.path.dirname(os.path.dirname(os.path.abspath(__file__)))
sys.path.insert(0, HERE)
from mc import core  # noqa: E402
props = [json.loads(l) for l in open(os.path.join(HERE, 'properties.jsonl'))]
checks, na = [], []
engines = {}
for p in props:
    pid = p['id']
    path = os.path.join(HERE, 'mc', 'checks', pid.lower() + '.py')
    if not os.path.exists(path):
        na.append({'property_id': pid, 'reason': 'check not built yet (planned in DESIGN.md section 4); model checking applies, nothing is claimed until the check exists'})
        continue
    mod = importlib.import_module(f'mc.checks.{pid.lower()}')
    checks.append({
        'property_id': pid,
        'quick_cmd': f'./check {pid} quick',
        'thorough_cmd': f'./check {pid} thorough',
        'evidence_file': f'/verif/evidence/{pid}.json',
        'replay_cmd_template': './check --replay {path}',
        'engine': getattr(mod, 'ENGINE', 'E1'),
        'level_claimed': {'category': mod.LEVEL, 'text': getattr(mod, 'LEVEL_TEXT', mod.RULE), 'design_ref': f'DESIGN.md section 4, {pid}'},
        'level_note': getattr(mod, 'LEVEL_NOTE', '; '.join(mod.ASSUMPTIONS)),
        'technique': core.technique_of(mod),
    })
    for e in getattr(mod, 'ENGINE', 'E1').replace(' ', '').split('+'):
        engines.setdefault(e, []).append(pid)
ENG = {
    'E1': ('grid / deviation explorer', 'mc/core.py', 'exhaustive enumeration of a declared finite product space (or all cells within k deviations of a baseline), one execution of the real library per cell, compared with a reference model'),
    'E2': ('history explorer', 'mc/hist.py', 'all operation histories up to depth d / explicit-state BFS to closure over real objects with a canonical full-state fingerprint; differential oracle against a fresh world on every transition'),
    'E3': ('component state-machine explorer', 'mc/fsm.py', 'every abstract step sequence up to depth n fed to the real _TrajectoryDataFilter / _WindSock through the call protocol of _integrate, compared step by step with a reference model'),
    'E4': ('schedule explorer', 'mc/sched.py', 'all interleavings of 2-3 real threads at function-entry scheduling points with a bounded number of pre-emptions under a cooperative baton scheduler (sys.settrace)'),
}
manifest = {
    'version': 1,
    'setup_cmd': './setup.sh',
    'hooks': {
        'guard': 'PYBC_VERIF',
        'enable': 'none needed: no source hooks exist; checks import the pure-Python library from /repo\'s working tree in a fresh interpreter (env PYBC_VERIF=1 is exported but nothing in /repo reads it)',
        'baseline_off_cmd': 'cd /repo && env -u PYBC_VERIF /venv/bin/python -m pytest -ra -q -p no:cacheprovider --timeout=900 --continue-on-collection-errors',
        'source_commits': [],
        'add_only': True,
    },
    'engines': [{'name': f'{k} {ENG[k][0]}', 'path': ENG[k][1], 'serves_properties': sorted(set(v)), 'kind_free_text': ENG[k][2]}
                for k, v in sorted(engines.items()) if k in ENG],
    'checks': checks,
    'notes': 'All checks are bounded exhaustive explorations of the real implementation (model checking family); see DESIGN.md. '
             'Genuine defects found on the pinned tree were repaired by "fix:" commits in /repo and are listed in KNOWN_FINDINGS.txt.',
    'not_applicable': na,
}
json.dump(manifest, open(os.path.join(HERE, 'MANIFEST.json'), 'w'), indent=1)
print('checks', len(checks), 'not_applicable', len(na))

#!/bin/sh
# tools/run_seeds.sh [tier]  (SEEDS_RE=<regex on the seed id> restricts the set; TRY=tools/try_seed_copy.sh works on scratch copies)  -- apply every seeded change under /verif/seeded to /repo in turn, run the check of its property, undo; report detection
tier=${1:-quick}
cd /verif
miss=0
for d in seeded/*/; do
  id=$(basename $d); prop=${id%-*}
  if [ -n "$SEEDS_RE" ] && ! echo "$id" | grep -Eq "$SEEDS_RE"; then continue; fi
  alt=$(sed -n 's/.*"check_property": "\(C[0-9]*\)".*/\1/p' $d/meta.json); [ -n "$alt" ] && prop=$alt
  res=$(${TRY:-tools/try_seed.sh} /verif/$d/patch.diff $prop $tier 2>&1 | head -1)
  if grep -q '"expected_detection": false' $d/meta.json; then echo "by-decision-not-flagged $id $res" | cut -c1-150; continue; fi
  case "$res" in rc=1*) echo "caught $id $res" | cut -c1-150;; *) echo "MISSED $id $res" | cut -c1-150; miss=$((miss+1));; esac
done
echo "missed=$miss"
[ $miss -eq 0 ]

#!/bin/sh
# tools/try_seed.sh <patch.diff> <ID> [tier]  -- apply a seeded change to /repo, run the check of property ID, undo it straight afterwards
patch=$1; id=$2; tier=${3:-quick}
cd /repo || exit 2
[ -n "$(git status --porcelain --untracked-files=no)" ] && { echo "/repo not clean"; exit 2; }
git apply "$patch" || exit 2
out=/var/tmp/seed_out_$$
VERIF_OUT=$out timeout 1500 /verif/check $id $tier > $out.log 2>&1
rc=$?
git checkout -- .
echo "rc=$rc violations=$(grep -c '^VIOLATION' $out.log) $(grep -m1 '^C[0-9][0-9] ' $out.log | cut -c1-160)"
grep -m2 '^   \[' $out.log | cut -c1-330
grep -m2 'ERROR' $out.log | cut -c1-300
rm -rf $out $out.log
exit $rc

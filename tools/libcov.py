#!/venv/bin/python
"""tools/libcov.py <covdir> [repo]  -- merge the files written by mc/cov.py (VERIF_COV=<covdir> ./check CNN quick ...) and list
  * executable library lines that no check executed,
  * branch instructions of which only one outcome was ever taken.
Audit tool for alphabet gaps; it never decides a property."""
import ast
import glob
import json
import os
import sys

covdir = sys.argv[1]
repo = sys.argv[2] if len(sys.argv) > 2 else '/repo'
pkg = os.path.join(repo, 'py_ballisticcalc')
lines = set()
arcs = {}
for f in glob.glob(os.path.join(covdir, '*.json')):
    d = json.load(open(f))
    lines.update((a, b) for a, b in d['lines'])
    for fn, q, s, sl, dl, do in d['arcs']:
        arcs.setdefault((fn, q, s, sl), set()).add((dl, do))


def executable_lines(path):
    """statement lines by ast (docstrings, def/class headers of never-imported code included)"""
    src = open(path).read()
    tree = ast.parse(src)
    out = set()
    for node in ast.walk(tree):
        if isinstance(node, ast.stmt):
            if isinstance(node, ast.Expr) and isinstance(node.value, ast.Constant) and isinstance(node.value.value, str):
                continue
            out.add(node.lineno)
    return out, src.splitlines()


skip = ('exts' + os.sep, 'visualize', 'assets')
tot = hit = 0
for root, _, files in os.walk(pkg):
    for fn in sorted(files):
        if not fn.endswith('.py'):
            continue
        path = os.path.join(root, fn)
        rel = os.path.relpath(path, pkg)
        if any(rel.startswith(s) or s in rel for s in skip):
            continue
        ex, src = executable_lines(path)
        got = {ln for f, ln in lines if f == rel}
        miss = sorted(ex - got)
        tot += len(ex)
        hit += len(ex & got)
        if miss:
            print(f'== {rel}: {len(miss)} of {len(ex)} statement lines never executed')
            for ln in miss:
                print(f'   {ln:4d}: {src[ln - 1].strip()[:120]}')
        part = sorted((sl, s, dsts) for (f, q, s, sl), dsts in arcs.items() if f == rel and len(dsts) == 1)
        if part:
            print(f'-- {rel}: branches with one outcome only')
            for sl, s, dsts in part:
                (dl, do), = dsts
                print(f'   {sl:4d} -> {dl}: {src[sl - 1].strip()[:110]}')
print(f'TOTAL statement lines {tot}, executed {hit}')

#!/bin/sh
# tools/proc_mut.sh <worktree-name>  -- round-6 style (property named in the first line of notes.md): confirm each mutant, then try it against its property
wt=$1
SEEDROOT=${SEEDROOT:-/tmp/seed10}; export SEEDROOT
cd /verif
timeout 3000 sh tools/confirm_seed.sh $wt
for v in a b c d e; do
  d=$SEEDROOT/$wt/_seed/$v
  [ -f $d/patch.diff ] || continue
  prop=$(head -1 $d/notes.md | sed -n 's/.*PROPERTY: *\(C[0-9][0-9]\).*/\1/p')
  echo "--- $wt/$v [$prop]: confirm: $(tr '\n' ' ' < $d/confirm.txt | cut -c1-170)"
  tools/try_seed_copy.sh $d/patch.diff $prop quick 2>&1 | head -${LINES_OUT:-3} | cut -c1-330
done

#!/bin/sh
# tools/try_seed_copy.sh <patch.diff> <ID> [tier] -- like try_seed.sh but on a scratch copy of /repo (VERIF_REPO), for use while /repo must stay untouched
patch=$1; id=$2; tier=${3:-quick}
d=/var/tmp/seedtry_$$
rsync -a --exclude .git --exclude '*.ipynb' --exclude __pycache__ /repo/ $d/ || exit 2
(cd $d && patch -p1 -s < "$patch") || { rm -rf $d; exit 2; }
VERIF_REPO=$d VERIF_OUT=$d/_out timeout 1500 /verif/check $id $tier > $d.log 2>&1
rc=$?
echo "rc=$rc violations=$(grep -c '^VIOLATION' $d.log) $(grep -m1 '^C[0-9][0-9] ' $d.log | cut -c1-160)"
grep -m2 '^   \[' $d.log | cut -c1-330
grep -m2 'ERROR' $d.log | cut -c1-300
rm -rf $d $d.log
exit $rc

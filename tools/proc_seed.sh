#!/bin/sh
# tools/proc_seed.sh <worktree-name> [PROP]  -- confirm the seeds (a, b) of ${SEEDROOT}/<name> and try each against the quick check of its property on a scratch copy
wt=$1; prop=${2:-$(echo $wt | cut -c1-3)}
SEEDROOT=${SEEDROOT:-/tmp/seed8}; export SEEDROOT
cd /verif
timeout 1500 sh tools/confirm_seed.sh $wt
for v in a b c d e; do
  d=$SEEDROOT/$wt/_seed/$v
  [ -f $d/patch.diff ] || continue
  echo "--- $wt/$v: $(grep -c . $d/patch.diff) diff lines; confirm: $(tr '\n' ' ' < $d/confirm.txt | cut -c1-200)"
  tools/try_seed_copy.sh $d/patch.diff $prop quick 2>&1 | head -${LINES_OUT:-4} | cut -c1-400
done
